#!/usr/bin/env python3
"""Regenerates MANIFEST.json from props.json + manifest_static.json (run after editing either)."""
import json, subprocess, os

here = os.path.dirname(os.path.abspath(__file__))
props = json.load(open(os.path.join(here, "props.json")))
static = json.load(open(os.path.join(here, "manifest_static.json")))
all_ids = [json.loads(l)["id"] for l in open(os.path.join(here, "properties.jsonl"))]

# hook commits = commits of /repo that touch nothing but the guarded contract files (<pkg>/verif_contracts.go)
hooks = []
try:
    out = subprocess.check_output(["git", "-C", "/repo", "log", "--format=@%H", "--name-only"], text=True)
    cur, files = None, []
    def flush():
        if cur and files and all(f.endswith("verif_contracts.go") for f in files):
            hooks.append(cur)
    for line in out.splitlines():
        if line.startswith("@"):
            flush()
            cur, files = line[1:], []
        elif line.strip():
            files.append(line.strip())
    flush()
except Exception:
    hooks = []

checks = []
for pid in all_ids:
    if pid not in props:
        continue
    p = props[pid]
    checks.append({
        "property_id": pid,
        "quick_cmd": f"./check {pid} quick",
        "thorough_cmd": f"./check {pid} thorough",
        "evidence_file": f"/verif/evidence/{pid}.json",
        "replay_cmd_template": "./check --replay {path}",
        "engine": "govc",
        "level_claimed": {
            "category": p.get("category", "proof"),
            "text": p["level_text"],
            "design_ref": p.get("design_ref", "DESIGN.md §3 " + pid),
        },
        "level_note": p["level_note"],
        "technique": p.get("technique", "contract-based deductive verification: VCs generated from go/ssa of the real functions against //@ contracts, discharged by z3/cvc5"),
    })

na = [{"property_id": pid, "reason": static["not_applicable"][pid]} for pid in all_ids if pid not in props]
missing = [pid for pid in all_ids if pid not in props and pid not in static["not_applicable"]]
assert not missing, missing

manifest = {
    "version": 1,
    "setup_cmd": "./setup.sh",
    "hooks": {
        "guard": "verif",
        "enable": "go build -tags verif (the guarded files are comment-only contract files <pkg>/verif_contracts.go; govc loads packages with -tags=verif)",
        "baseline_off_cmd": "cd /repo && go test -mod=mod -vet=off -count=1 -timeout 25m ./...",
        "source_commits": hooks,
        "add_only": True,
    },
    "engines": [{
        "name": "govc",
        "path": "/verif/engine",
        "serves_properties": [c["property_id"] for c in checks],
        "kind_free_text": "verification-condition generator for Go (go/packages + go/ssa NaiveForm, path-wise symbolic execution with loop invariants, modular contracts, frame conditions) + SMT back ends z3 4.8.12, z3 5.1.0, cvc5 1.0",
    }],
    "checks": checks,
    "notes": static["notes"],
    "not_applicable": na,
}
json.dump(manifest, open(os.path.join(here, "MANIFEST.json"), "w"), indent=1)
print("checks:", len(checks), "not_applicable:", len(na))
