#!/bin/sh
# Builds the verifier from files on disk only (x/tools is vendored under engine/vendor).
set -e
cd "$(dirname "$0")"
export GOFLAGS=-mod=vendor GOPROXY=off GOSUMDB=off GOTOOLCHAIN=local
mkdir -p bin
(cd engine && go build -o ../bin/govc ./cmd/govc)
# warm the export-data cache of the packages the checks load (cold: about a minute, once)
GOFLAGS=-mod=mod bin/govc -warm >/dev/null 2>&1 || true
echo "govc built"
