package main

import (
	"fmt"
	"go/constant"
	"go/token"
	"go/types"
	"math/big"
	"strings"

	"golang.org/x/tools/go/ssa"
)

type retCont func(st *State, res []Val, panicked bool)

func (x *Exec) globalCell(st *State, g *ssa.Global) *Cell {
	c, ok := x.globals[g]
	if !ok {
		T := g.Type().(*types.Pointer).Elem()
		c = x.newCell("g_"+g.Pkg.Pkg.Name()+"_"+g.Name(), T)
		x.globals[g] = c
	}
	if _, ok := st.cells[c]; !ok {
		T := c.T
		name := sanitize(c.name)
		if _, isSig := T.Underlying().(*types.Signature); isSig {
			st.cells[c] = &FuncParam{Name: c.name, Sig: T.Underlying().(*types.Signature), Nil: "false"}
		} else {
			x.reg.declConst(name, x.sortOf(T))
			if isErrorType(T) {
				// sentinel error variables: non-nil, their own kind, never reassigned (assumption)
				x.note("sentinel error variables are never reassigned and pairwise distinct")
				x.reg.axioms = appendUniq(x.reg.axioms, "(assert (and (not (= "+name+" 0)) (= (kind "+name+") "+name+")))")
				x.sentinels(name)
			}
			st.cells[c] = Term{name, T}
		}
	}
	return c
}

var sentinelNames []string

func (x *Exec) sentinels(name string) {
	for _, s := range sentinelNames {
		if s == name {
			return
		}
	}
	for _, s := range sentinelNames {
		x.reg.axioms = appendUniq(x.reg.axioms, "(assert (not (= "+s+" "+name+")))")
	}
	sentinelNames = append(sentinelNames, name)
}

func appendUniq(a []string, s string) []string {
	for _, t := range a {
		if t == s {
			return a
		}
	}
	return append(a, s)
}

func isErrorType(T types.Type) bool {
	n, ok := T.(*types.Named)
	return ok && n.Obj().Pkg() == nil && n.Obj().Name() == "error"
}

func (x *Exec) valueOf(st *State, fr *Frame, v ssa.Value) Val {
	switch c := v.(type) {
	case *ssa.Const:
		if c.Value == nil {
			switch c.Type().Underlying().(type) {
			case *types.Signature:
				return &FuncParam{Name: "nil", Nil: "true"}
			}
			return Term{x.reg.zero(c.Type()), c.Type()}
		}
		return Term{constTerm(x.reg, c.Value, c.Type()), c.Type()}
	case *ssa.Function:
		return &StaticFn{c}
	case *ssa.Global:
		cell := x.globalCell(st, c)
		return &Place{Kind: pkCell, Cell: cell, Base: cell.T, T: cell.T}
	case *ssa.FreeVar:
		for i, fv := range fr.fn.FreeVars {
			if fv == c {
				return fr.free[i]
			}
		}
		bail("free var not found")
	case *ssa.Builtin:
		return c
	}
	r, ok := fr.regs[v]
	if !ok {
		bail("value %s (%T) not computed in %s", v.Name(), v, fr.fn.Name())
	}
	return r
}

// enterBlock handles loop headers, then runs the block.
func (x *Exec) enterBlock(st *State, fr *Frame, b, from *ssa.BasicBlock, k retCont) {
	if st.dead {
		return
	}
	// leaving a loop ends its frame obligations
	for h, al := range fr.loops {
		if !al.li.body[b] {
			delete(fr.loops, h)
		}
	}
	if li := x.loopAt(fr.fn, b); li != nil {
		if from != nil && li.body[from] {
			if al, ok := fr.loops[b]; ok {
				x.loopBackEdge(st, fr, al)
				return
			}
			if x.bounded > 0 {
				// bounded unrolling handled in loopEnter
			}
		}
		if !x.loopEnter(st, fr, li, from) {
			return
		}
	}
	x.step(st, fr, b, 0, from, k)
}

func (x *Exec) step(st *State, fr *Frame, b *ssa.BasicBlock, idx int, pred *ssa.BasicBlock, k retCont) {
	// phis first (parallel)
	if idx == 0 {
		var phis []*ssa.Phi
		for _, in := range b.Instrs {
			if p, ok := in.(*ssa.Phi); ok {
				phis = append(phis, p)
			} else {
				break
			}
		}
		if len(phis) > 0 {
			pi := -1
			for i, p := range b.Preds {
				if p == pred {
					pi = i
				}
			}
			if pi < 0 {
				bail("phi without predecessor")
			}
			vals := make([]Val, len(phis))
			for i, p := range phis {
				vals[i] = x.valueOf(st, fr, p.Edges[pi])
			}
			for i, p := range phis {
				fr.regs[p] = vals[i]
			}
			idx = len(phis)
		}
	}
	for i := idx; i < len(b.Instrs); i++ {
		if st.dead {
			return
		}
		in := b.Instrs[i]
		switch in := in.(type) {
		case *ssa.DebugRef:
		case *ssa.If:
			c := x.valueOf(st, fr, in.Cond).(Term).S
			if c == "true" {
				x.enterBlock(st, fr, b.Succs[0], b, k)
				return
			}
			if c == "false" {
				x.enterBlock(st, fr, b.Succs[1], b, k)
				return
			}
			st2, fr2 := st.clone(), fr.clone()
			x.assume(st, c)
			x.enterBlock(st, fr, b.Succs[0], b, k)
			x.assume(st2, not(c))
			x.enterBlock(st2, fr2, b.Succs[1], b, k)
			return
		case *ssa.Jump:
			x.enterBlock(st, fr, b.Succs[0], b, k)
			return
		case *ssa.Return:
			res := make([]Val, len(in.Results))
			for j, r := range in.Results {
				res[j] = x.valueOf(st, fr, r)
			}
			x.countPath()
			x.retFrame = fr
			k(st, res, false)
			return
		case *ssa.Panic:
			x.countPath()
			if x.safetyOn {
				x.oblige(st, fr, "panic", "", in, 0, "false", "explicit panic is unreachable")
			}
			return
		case *ssa.RunDefers:
			ds := fr.defers
			fr.defers = nil
			x.runDefers(st, fr, ds, len(ds)-1, func(st2 *State, fr2 *Frame) {
				x.step(st2, fr2, b, i+1, pred, k)
			})
			return
		case *ssa.Defer:
			d := deferred{call: &in.Call}
			if in.Call.IsInvoke() {
				d.fn = x.valueOf(st, fr, in.Call.Value)
			} else {
				d.fn = x.valueOf(st, fr, in.Call.Value)
			}
			for _, a := range in.Call.Args {
				d.args = append(d.args, x.valueOf(st, fr, a))
			}
			fr.defers = append(fr.defers, d)
		case *ssa.Go:
			x.note("goroutine body not executed: " + funcFull(fr.fn) + " at " + posStr(x.fset, in.Pos()))
		case *ssa.Call:
			args := make([]Val, len(in.Call.Args))
			for j, a := range in.Call.Args {
				args[j] = x.valueOf(st, fr, a)
			}
			fv := x.valueOf(st, fr, in.Call.Value)
			first := true
			x.doCall(st, fr, in, &in.Call, fv, args, func(st2 *State, res Val) {
				fr2 := fr
				if !first {
					fr2 = fr.clone()
				}
				first = false
				frc := fr2.clone()
				frc.regs[in] = res
				x.step(st2, frc, b, i+1, pred, k)
			})
			return
		default:
			x.exec1(st, fr, in)
		}
	}
}

func (x *Exec) countPath() {
	x.paths++
	if x.paths > x.maxPath {
		bail("path limit exceeded (%d)", x.maxPath)
	}
}

func (x *Exec) runDefers(st *State, fr *Frame, ds []deferred, i int, k func(*State, *Frame)) {
	if i < 0 {
		k(st, fr)
		return
	}
	d := ds[i]
	first := true
	x.doCall(st, fr, nil, d.call, d.fn, d.args, func(st2 *State, res Val) {
		fr2 := fr
		if !first {
			fr2 = fr.clone()
		}
		first = false
		x.runDefers(st2, fr2, ds, i-1, k)
	})
}

// exec1 executes a non-control, non-call instruction.
func (x *Exec) exec1(st *State, fr *Frame, in ssa.Instruction) {
	switch in := in.(type) {
	case *ssa.Alloc:
		fr.regs[in] = x.doAlloc(st, fr, in)
	case *ssa.Store:
		addr := x.valueOf(st, fr, in.Addr)
		v := x.valueOf(st, fr, in.Val)
		x.store(st, fr, x.asPlace(addr, in.Addr.Type()), v, in)
	case *ssa.UnOp:
		fr.regs[in] = x.unop(st, fr, in)
	case *ssa.BinOp:
		fr.regs[in] = x.binop(st, fr, in, in.Op, x.valueOf(st, fr, in.X), x.valueOf(st, fr, in.Y), in.X.Type(), in.Type())
	case *ssa.FieldAddr:
		p := x.asPlace(x.valueOf(st, fr, in.X), in.X.Type())
		if p.Kind == pkHeap {
			x.nilCheck(st, fr, p.Ref, in)
		}
		np := *p
		np.Path = append(append([]int(nil), p.Path...), in.Field)
		np.T = x.fieldType(p.T, in.Field)
		fr.regs[in] = &np
	case *ssa.Field:
		t := x.valueOf(st, fr, in.X).(Term)
		s, T := x.project(t.S, t.T, []int{in.Field})
		fr.regs[in] = x.typed(st, s, T)
	case *ssa.IndexAddr:
		fr.regs[in] = x.indexAddr(st, fr, in)
	case *ssa.Index:
		xv := x.valueOf(st, fr, in.X).(Term)
		iv := x.valueOf(st, fr, in.Index).(Term)
		switch u := in.X.Type().Underlying().(type) {
		case *types.Array:
			x.safety(st, fr, "index", in, 0, and(app("<=", "0", iv.S), app("<", iv.S, fmt.Sprint(u.Len()))), "array index in range")
			fr.regs[in] = x.typed(st, app("select", xv.S, iv.S), u.Elem())
		default:
			bail("Index on %s", in.X.Type())
		}
	case *ssa.Lookup:
		fr.regs[in] = x.lookup(st, fr, in)
	case *ssa.MapUpdate:
		m := x.valueOf(st, fr, in.Map).(Term)
		kv := x.toTerm(st, x.valueOf(st, fr, in.Key), in.Key.Type())
		vv := x.toTerm(st, x.valueOf(st, fr, in.Value), in.Value.Type())
		x.mapUpdate(st, fr, m, kv.S, vv.S, in)
	case *ssa.MakeMap:
		r := x.allocRefT(st, in.Type())
		mt := in.Type().Underlying().(*types.Map)
		x.initMap(st, mt, r)
		fr.regs[in] = Term{r, in.Type()}
	case *ssa.MakeSlice:
		ln := x.valueOf(st, fr, in.Len).(Term)
		cp := x.valueOf(st, fr, in.Cap).(Term)
		x.safety(st, fr, "makeslice", in, 0, and(app("<=", "0", ln.S), app("<=", ln.S, cp.S)), "make length and capacity are non-negative")
		et := in.Type().Underlying().(*types.Slice).Elem()
		r := x.allocRefT(st, in.Type())
		name, srt := x.arrName(et)
		arr := x.getArr(st, name, srt)
		x.setArr(st, name, srt, app("store", arr, r, x.reg.zero(types.NewArray(et, 0))))
		fr.regs[in] = Term{x.define(st, "sl", "Slice", app("mk_Slice", r, "0", ln.S, cp.S)), in.Type()}
	case *ssa.MakeInterface:
		fr.regs[in] = &Iface{Dyn: in.X.Type(), V: x.valueOf(st, fr, in.X)}
	case *ssa.MakeClosure:
		c := &Closure{Fn: in.Fn.(*ssa.Function)}
		for _, b := range in.Bindings {
			c.Bind = append(c.Bind, x.valueOf(st, fr, b))
		}
		fr.regs[in] = c
	case *ssa.MakeChan:
		x.note("channel operations are not modelled")
		fr.regs[in] = Term{x.declare(st, "chan", "Int"), in.Type()}
	case *ssa.Slice:
		fr.regs[in] = x.sliceOp(st, fr, in)
	case *ssa.Extract:
		t := x.valueOf(st, fr, in.Tuple).(Tuple)
		fr.regs[in] = t[in.Index]
	case *ssa.TypeAssert:
		fr.regs[in] = x.typeAssert(st, fr, in)
	case *ssa.ChangeType:
		v := x.valueOf(st, fr, in.X)
		if t, ok := v.(Term); ok {
			v = Term{t.S, in.Type()}
		}
		fr.regs[in] = v
	case *ssa.ChangeInterface:
		fr.regs[in] = x.valueOf(st, fr, in.X)
	case *ssa.Convert:
		fr.regs[in] = x.convert(st, fr, in)
	case *ssa.Range:
		xv := x.valueOf(st, fr, in.X)
		switch u := in.X.Type().Underlying().(type) {
		case *types.Map:
			ks := x.sortOf(u.Key())
			seen := x.newCell("seen", nil)
			st.cells[seen] = Term{"((as const (Array " + ks + " Bool)) false)", nil}
			it := &RangeIter{Map: xv, Seen: seen, MapT: u}
			if vs := x.sortOf(u.Elem()); vs == "Int" || vs == "Real" {
				m := xv.(Term).S
				it.SeenSum = x.newCell("seensum", u.Elem())
				st.cells[it.SeenSum] = Term{x.reg.zero(u.Elem()), u.Elem()}
				it.StartSum = x.define(st, "msum0", vs, x.mapSum(st, u, m))
				it.StartDom = x.define(st, "dom0", "(Array "+ks+" Bool)", x.mapDom(st, u, m))
				it.StartVal = x.define(st, "val0", "(Array "+ks+" "+vs+")", x.mapVal(st, u, m))
			}
			fr.regs[in] = it
		default:
			bail("range over %s", in.X.Type())
		}
	case *ssa.Next:
		fr.regs[in] = x.next(st, fr, in)
	case *ssa.Send, *ssa.Select:
		bail("channel send/select not supported")
	case *ssa.SliceToArrayPointer, *ssa.MultiConvert:
		bail("unsupported conversion %T", in)
	default:
		bail("unsupported instruction %T", in)
	}
}

func (x *Exec) doAlloc(st *State, fr *Frame, in *ssa.Alloc) Val {
	T := in.Type().(*types.Pointer).Elem()
	switch u := T.Underlying().(type) {
	case *types.Struct:
		if in.Heap {
			r := x.allocRefT(st, in.Type())
			name, srt := x.heapName(T)
			arr := x.getArr(st, name, srt)
			x.setArr(st, name, srt, app("store", arr, r, x.reg.zero(T)))
			return &Place{Kind: pkHeap, Ref: r, Base: T, T: T}
		}
	case *types.Array:
		r := x.allocRefT(st, T)
		name, srt := x.arrName(u.Elem())
		arr := x.getArr(st, name, srt)
		if u.Len() > 0 {
			// (a zero-length backing array, as `[]T{}` allocates, has no element to initialise: the heap array
			// keeps its version, which spares every later read a select-over-store step)
			x.setArr(st, name, srt, app("store", arr, r, x.reg.zero(T)))
		}
		return &Place{Kind: pkElem, Ref: r, Base: u.Elem(), T: T, ArrayPtr: true, ArrLen: u.Len()}
	}
	if in.Heap && escapesAsValue(in) {
		// address is passed around as a value: a real heap object
		r := x.allocRefT(st, in.Type())
		name, srt := x.heapName(T)
		arr := x.getArr(st, name, srt)
		x.setArr(st, name, srt, app("store", arr, r, x.reg.zero(T)))
		return &Place{Kind: pkHeap, Ref: r, Base: T, T: T}
	}
	c := x.newCell(in.Comment, T)
	fr.allocCell[in] = c
	if _, isSig := T.Underlying().(*types.Signature); isSig {
		st.cells[c] = &FuncParam{Name: "nil", Nil: "true"}
	} else if _, isIf := T.Underlying().(*types.Interface); isIf {
		st.cells[c] = Term{"0", T}
	} else {
		st.cells[c] = Term{x.reg.zero(T), T}
	}
	return &Place{Kind: pkCell, Cell: c, Base: T, T: T}
}

func (x *Exec) indexAddr(st *State, fr *Frame, in *ssa.IndexAddr) Val {
	xv := x.valueOf(st, fr, in.X)
	iv := x.valueOf(st, fr, in.Index).(Term)
	switch u := in.X.Type().Underlying().(type) {
	case *types.Slice:
		s := xv.(Term).S
		x.safety(st, fr, "index", in, 0, and(app("<=", "0", iv.S), app("<", iv.S, app("s_len", s))), "slice index in range")
		return &Place{Kind: pkElem, Ref: x.define(st, "arr", "Int", app("s_arr", s)), Idx: x.define(st, "ix", "Int", app("at", app("s_off", s), iv.S)), Base: u.Elem(), T: u.Elem()}
	case *types.Pointer: // pointer to array
		at := u.Elem().Underlying().(*types.Array)
		p := x.asPlace(xv, in.X.Type())
		if !p.ArrayPtr {
			bail("IndexAddr on pointer to array that is not a fresh backing array")
		}
		x.safety(st, fr, "index", in, 0, and(app("<=", "0", iv.S), app("<", iv.S, fmt.Sprint(at.Len()))), "array index in range")
		return &Place{Kind: pkElem, Ref: p.Ref, Idx: iv.S, Base: at.Elem(), T: at.Elem()}
	}
	bail("IndexAddr on %s", in.X.Type())
	return nil
}

func (x *Exec) sliceOp(st *State, fr *Frame, in *ssa.Slice) Val {
	xv := x.valueOf(st, fr, in.X)
	var lo, hi, mx string
	if in.Low != nil {
		lo = x.valueOf(st, fr, in.Low).(Term).S
	}
	if in.High != nil {
		hi = x.valueOf(st, fr, in.High).(Term).S
	}
	if in.Max != nil {
		mx = x.valueOf(st, fr, in.Max).(Term).S
	}
	switch u := in.X.Type().Underlying().(type) {
	case *types.Slice:
		s := xv.(Term).S
		if lo == "" {
			lo = "0"
		}
		if hi == "" {
			hi = app("s_len", s)
		}
		capT := app("s_cap", s)
		if mx != "" {
			x.safety(st, fr, "slice-bounds", in, 1, and(app("<=", hi, mx), app("<=", mx, capT)), "slice max in range")
			capT = mx
		}
		x.safety(st, fr, "slice-bounds", in, 0, and(app("<=", "0", lo), app("<=", lo, hi), app("<=", hi, capT)), "slice bounds 0 <= low <= high <= cap")
		ns := x.define(st, "sl", "Slice", app("mk_Slice", app("s_arr", s), addT(app("s_off", s), lo), subT(hi, lo), subT(capT, lo)))
		if lo != "0" {
			// bridge for E-matching: element i of s[lo:...] is element lo+i of s. Both address terms denote the
			// same integer; making the second one exist lets facts quantified over the elements of s (triggered
			// by reads of s) apply to reads through the sub-slice
			q := x.fresh("i")
			x.assume(st, "(forall (("+q+" Int)) (! (= (at (s_off "+ns+") "+q+") (at (s_off "+s+") (+ "+lo+" "+q+"))) :pattern ((at (s_off "+ns+") "+q+"))))")
		}
		return Term{ns, in.Type()}
	case *types.Pointer:
		at := u.Elem().Underlying().(*types.Array)
		p := x.asPlace(xv, in.X.Type())
		if !p.ArrayPtr {
			bail("slice of pointer to array that is not a fresh backing array")
		}
		n := fmt.Sprint(at.Len())
		if lo == "" {
			lo = "0"
		}
		if hi == "" {
			hi = n
		}
		x.safety(st, fr, "slice-bounds", in, 0, and(app("<=", "0", lo), app("<=", lo, hi), app("<=", hi, n)), "slice bounds in range")
		return Term{x.define(st, "sl", "Slice", app("mk_Slice", p.Ref, lo, subT(hi, lo), subT(n, lo))), in.Type()}
	case *types.Basic: // string
		x.note("substring is uninterpreted")
		x.reg.declFun("substr", "(Int Int Int) Int")
		s := xv.(Term).S
		if lo == "" {
			lo = "0"
		}
		if hi == "" {
			hi = app("strlen", s)
		}
		x.safety(st, fr, "slice-bounds", in, 0, and(app("<=", "0", lo), app("<=", lo, hi), app("<=", hi, app("strlen", s))), "string slice bounds in range")
		return Term{x.define(st, "str", "Int", app("substr", s, lo, hi)), in.Type()}
	}
	bail("Slice on %s", in.X.Type())
	return nil
}

func (x *Exec) unop(st *State, fr *Frame, in *ssa.UnOp) Val {
	v := x.valueOf(st, fr, in.X)
	switch in.Op {
	case token.MUL:
		return x.load(st, fr, x.asPlace(v, in.X.Type()), in)
	case token.NOT:
		return Term{not(v.(Term).S), in.Type()}
	case token.SUB:
		t := v.(Term)
		if x.sortOf(in.Type()) == "Real" {
			return Term{x.define(st, "neg", "Real", app("-", t.S)), in.Type()}
		}
		r := x.define(st, "neg", "Int", app("-", t.S))
		x.safety(st, fr, "overflow", in, 0, inRange(r, in.Type()), "negation does not overflow")
		return Term{r, in.Type()}
	case token.XOR:
		x.reg.declFun("bitnot", "(Int) Int")
		return Term{app("bitnot", v.(Term).S), in.Type()}
	case token.ARROW:
		x.note("channel receive is havoc")
		if in.CommaOk {
			return Tuple{x.havocVal(st, "recv", in.Type().(*types.Tuple).At(0).Type()), Term{x.declare(st, "ok", "Bool"), types.Typ[types.Bool]}}
		}
		return x.havocVal(st, "recv", in.Type())
	}
	bail("unop %s", in.Op)
	return nil
}

// havocVal creates an unconstrained value of type T (with type invariants).
func (x *Exec) havocVal(st *State, prefix string, T types.Type) Val {
	switch u := T.Underlying().(type) {
	case *types.Signature:
		return &FuncParam{Name: x.fresh(prefix), Sig: u, Nil: x.declare(st, prefix+"_nil", "Bool")}
	case *types.Tuple:
		var t Tuple
		for i := 0; i < u.Len(); i++ {
			t = append(t, x.havocVal(st, prefix, u.At(i).Type()))
		}
		return t
	}
	n := x.declare(st, sanitize(prefix), x.sortOf(T))
	return x.typed(st, n, T)
}

func (x *Exec) nilness(v Val) (string, bool) {
	switch t := v.(type) {
	case *FuncParam:
		return t.Nil, true
	case *Closure, *StaticFn, *Noop, *ssa.Builtin:
		return "false", true
	case *Iface:
		return "false", true
	case *Place:
		if t.Kind == pkHeap && len(t.Path) == 0 {
			return eq(t.Ref, "0"), true
		}
		return "false", true
	}
	return "", false
}

func isNilTerm(v Val) bool {
	switch t := v.(type) {
	case Term:
		if t.S != "0" && t.S != "(mk_Slice 0 0 0 0)" {
			return false
		}
		if t.T == nil {
			return true
		}
		if b, ok := t.T.Underlying().(*types.Basic); ok && b.Kind() != types.UntypedNil && b.Kind() != types.UnsafePointer {
			return false
		}
		return true
	case *FuncParam:
		return t.Nil == "true"
	}
	return false
}

func (x *Exec) eqVals(st *State, a, b Val, T types.Type) string {
	if isNilTerm(b) {
		if n, ok := x.nilness(a); ok {
			return n
		}
	}
	if isNilTerm(a) {
		if n, ok := x.nilness(b); ok {
			return n
		}
	}
	ia, oka := a.(*Iface)
	ib, okb := b.(*Iface)
	if oka && okb {
		if !types.Identical(ia.Dyn, ib.Dyn) {
			return "false"
		}
		return x.eqVals(st, ia.V, ib.V, ia.Dyn)
	}
	if _, isSlice := T.Underlying().(*types.Slice); isSlice {
		// only comparison with nil is legal
		var s string
		if ta, ok := a.(Term); ok && !isNilTerm(a) {
			s = ta.S
		} else if tb, ok := b.(Term); ok {
			s = tb.S
		}
		return eq(app("s_arr", s), "0")
	}
	ta := x.toTerm(st, a, T)
	tb := x.toTerm(st, b, T)
	return eq(ta.S, tb.S)
}

func (x *Exec) binop(st *State, fr *Frame, in ssa.Instruction, op token.Token, a, b Val, opT, resT types.Type) Val {
	boolT := types.Typ[types.Bool]
	switch op {
	case token.EQL:
		return Term{x.eqVals(st, a, b, opT), boolT}
	case token.NEQ:
		return Term{not(x.eqVals(st, a, b, opT)), boolT}
	}
	ta, tb := a.(Term), b.(Term)
	srt := x.sortOf(opT)
	bt, _ := opT.Underlying().(*types.Basic)
	isStr := bt != nil && bt.Info()&types.IsString != 0
	switch op {
	case token.LSS:
		return Term{app("<", ta.S, tb.S), boolT}
	case token.LEQ:
		return Term{app("<=", ta.S, tb.S), boolT}
	case token.GTR:
		return Term{app(">", ta.S, tb.S), boolT}
	case token.GEQ:
		return Term{app(">=", ta.S, tb.S), boolT}
	case token.LAND:
		return Term{and(ta.S, tb.S), boolT}
	case token.LOR:
		return Term{or(ta.S, tb.S), boolT}
	}
	if isStr && op == token.ADD {
		return Term{x.define(st, "str", "Int", app("str_concat", ta.S, tb.S)), resT}
	}
	if srt == "Real" {
		var s string
		switch op {
		case token.ADD:
			s = app("+", ta.S, tb.S)
		case token.SUB:
			s = app("-", ta.S, tb.S)
		case token.MUL:
			s = app("*", ta.S, tb.S)
		case token.QUO:
			// float division by zero yields Inf, not a panic; reals: treat as unspecified
			s = app("/", ta.S, tb.S)
		default:
			bail("float op %s", op)
		}
		return Term{x.define(st, "f", "Real", s), resT}
	}
	if srt == "Bool" {
		bail("bool binop %s", op)
	}
	// integers
	var s string
	check := true
	switch op {
	case token.ADD:
		s = app("+", ta.S, tb.S)
	case token.SUB:
		s = app("-", ta.S, tb.S)
	case token.MUL:
		s = app("*", ta.S, tb.S)
	case token.QUO:
		x.safety(st, fr, "div-zero", in, 0, not(eq(tb.S, "0")), "divisor is non-zero")
		s = app("godiv", ta.S, tb.S)
	case token.REM:
		x.safety(st, fr, "div-zero", in, 0, not(eq(tb.S, "0")), "divisor is non-zero")
		s = app("gomod", ta.S, tb.S)
		check = false
	case token.SHL:
		if c, ok := numeral(tb.S); ok && c < 63 {
			s = app("*", ta.S, new(big.Int).Lsh(big.NewInt(1), uint(c)).String())
		} else {
			x.reg.declFun("shl", "(Int Int) Int")
			s = app("shl", ta.S, tb.S)
			check = false
		}
	case token.SHR:
		if c, ok := numeral(tb.S); ok && c < 63 {
			s = app("div", ta.S, new(big.Int).Lsh(big.NewInt(1), uint(c)).String())
		} else {
			x.reg.declFun("shr", "(Int Int) Int")
			s = app("shr", ta.S, tb.S)
		}
		check = false
	case token.AND, token.OR, token.XOR, token.AND_NOT:
		fn := map[token.Token]string{token.AND: "bitand", token.OR: "bitor", token.XOR: "bitxor", token.AND_NOT: "bitandnot"}[op]
		x.reg.declFun(fn, "(Int Int) Int")
		s = app(fn, ta.S, tb.S)
		check = false
	default:
		bail("int op %s", op)
	}
	r := x.define(st, "i", "Int", s)
	if check {
		x.safety(st, fr, "overflow", in, 0, inRange(r, resT), "integer "+op.String()+" does not overflow")
	} else {
		x.assume(st, inRange(r, resT))
	}
	return Term{r, resT}
}

func numeral(s string) (int64, bool) {
	if !isNumeral(s) || len(s) > 18 {
		return 0, false
	}
	var v int64
	fmt.Sscan(s, &v)
	return v, true
}

func (x *Exec) convert(st *State, fr *Frame, in *ssa.Convert) Val {
	v := x.valueOf(st, fr, in.X)
	from, to := in.X.Type(), in.Type()
	fs, ts := x.sortOf(from), x.sortOf(to)
	fb, _ := from.Underlying().(*types.Basic)
	tb, _ := to.Underlying().(*types.Basic)
	t, isT := v.(Term)
	if !isT {
		return v
	}
	if fb != nil && tb != nil {
		fStr, tStr := fb.Info()&types.IsString != 0, tb.Info()&types.IsString != 0
		switch {
		case fStr && tStr:
			return Term{t.S, to}
		case tStr: // int -> string
			x.reg.declFun("str_of_rune", "(Int) Int")
			return x.typed(st, app("str_of_rune", t.S), to)
		case fs == "Int" && ts == "Int":
			if _, _, ok := intRange(to); ok {
				x.safety(st, fr, "overflow", in, 0, inRange(t.S, to), "integer conversion preserves the value")
			}
			return Term{t.S, to}
		case fs == "Int" && ts == "Real":
			return Term{x.define(st, "f", "Real", app("to_real", t.S)), to}
		case fs == "Real" && ts == "Int":
			r := x.define(st, "i", "Int", app("trunc", t.S))
			x.safety(st, fr, "overflow", in, 0, inRange(r, to), "float to integer conversion is in range")
			return Term{r, to}
		case fs == "Real" && ts == "Real":
			return Term{t.S, to}
		}
	}
	// string <-> []byte / []rune etc: uninterpreted
	x.note("conversion " + from.String() + " -> " + to.String() + " is uninterpreted")
	fn := "conv_" + sortId(fs) + "_" + sortId(ts) + "_" + sanitize(to.String())
	x.reg.declFun(fn, "("+fs+") "+ts)
	return x.typed(st, x.define(st, "cv", ts, app(fn, t.S)), to)
}

func (x *Exec) typeAssert(st *State, fr *Frame, in *ssa.TypeAssert) Val {
	v := x.valueOf(st, fr, in.X)
	boolT := types.Typ[types.Bool]
	_, toIface := in.AssertedType.Underlying().(*types.Interface)
	switch i := v.(type) {
	case *Iface:
		if toIface {
			if in.CommaOk {
				return Tuple{i, Term{"true", boolT}}
			}
			return i
		}
		if types.Identical(i.Dyn, in.AssertedType) {
			if in.CommaOk {
				return Tuple{i.V, Term{"true", boolT}}
			}
			return i.V
		}
		if in.CommaOk {
			return Tuple{Term{x.reg.zero(in.AssertedType), in.AssertedType}, Term{"false", boolT}}
		}
		x.safety(st, fr, "type-assert", in, 0, "false", "type assertion succeeds")
		st.dead = true
		return Term{x.reg.zero(in.AssertedType), in.AssertedType}
	case Term:
		if toIface {
			ok := not(eq(i.S, "0"))
			if in.CommaOk {
				okc := x.declare(st, "ok", "Bool")
				x.assume(st, implies(okc, ok))
				return Tuple{Term{i.S, in.AssertedType}, Term{okc, boolT}}
			}
			x.safety(st, fr, "type-assert", in, 0, ok, "interface conversion of non-nil value")
			return Term{i.S, in.AssertedType}
		}
		x.reg.declFun("itype", "(Int) Int")
		ok := and(not(eq(i.S, "0")), eq(app("itype", i.S), x.typeID(in.AssertedType)))
		srt := x.sortOf(in.AssertedType)
		fn := "unbox_" + sortId(srt)
		x.reg.declFun(fn, "(Int) "+srt)
		val := x.typed(st, x.define(st, "ub", srt, app(fn, i.S)), in.AssertedType)
		if in.CommaOk {
			return Tuple{val, Term{ok, boolT}}
		}
		x.safety(st, fr, "type-assert", in, 0, ok, "type assertion succeeds")
		return val
	}
	bail("type assert on %T", v)
	return nil
}

// ---------- maps ----------

func (x *Exec) initMap(st *State, mt *types.Map, r string) {
	dn, vn, ks, vs := x.mapNames(mt)
	ds, vsrt := "(Array Int (Array "+ks+" Bool))", "(Array Int (Array "+ks+" "+vs+"))"
	x.setArr(st, dn, ds, app("store", x.getArr(st, dn, ds), r, "((as const (Array "+ks+" Bool)) false)"))
	x.setArr(st, vn, vsrt, app("store", x.getArr(st, vn, vsrt), r, "((as const (Array "+ks+" "+vs+")) "+x.reg.zero(mt.Elem())+")"))
	x.setArr(st, "MC", "(Array Int Int)", app("store", x.getArr(st, "MC", "(Array Int Int)"), r, "0"))
	if vs == "Int" || vs == "Real" {
		x.setArr(st, "MS_"+vs, "(Array Int "+vs+")", app("store", x.getArr(st, "MS_"+vs, "(Array Int "+vs+")"), r, x.reg.zero(mt.Elem())))
	}
}

func (x *Exec) mapDom(st *State, mt *types.Map, m string) string {
	dn, _, ks, _ := x.mapNames(mt)
	return app("select", x.getArr(st, dn, "(Array Int (Array "+ks+" Bool))"), m)
}
func (x *Exec) mapVal(st *State, mt *types.Map, m string) string {
	_, vn, ks, vs := x.mapNames(mt)
	return app("select", x.getArr(st, vn, "(Array Int (Array "+ks+" "+vs+"))"), m)
}
func (x *Exec) mapCard(st *State, m string) string {
	return app("select", x.getArr(st, "MC", "(Array Int Int)"), m)
}
func (x *Exec) mapSum(st *State, mt *types.Map, m string) string {
	vs := x.sortOf(mt.Elem())
	return app("select", x.getArr(st, "MS_"+vs, "(Array Int "+vs+")"), m)
}

// mapGet returns m[k] with Go semantics (zero value when absent)
func (x *Exec) mapGet(st *State, mt *types.Map, m, k string) (val, present string) {
	present = app("select", x.mapDom(st, mt, m), k)
	val = ite(present, app("select", x.mapVal(st, mt, m), k), x.reg.zero(mt.Elem()))
	return
}

func (x *Exec) lookup(st *State, fr *Frame, in *ssa.Lookup) Val {
	xv := x.valueOf(st, fr, in.X).(Term)
	iv := x.toTerm(st, x.valueOf(st, fr, in.Index), in.Index.Type())
	switch u := in.X.Type().Underlying().(type) {
	case *types.Map:
		v, p := x.mapGet(st, u, xv.S, iv.S)
		val := x.typed(st, x.define(st, "mv", x.sortOf(u.Elem()), v), u.Elem())
		if in.CommaOk {
			return Tuple{val, Term{x.define(st, "mok", "Bool", p), types.Typ[types.Bool]}}
		}
		return val
	case *types.Basic:
		x.reg.declFun("str_at", "(Int Int) Int")
		x.safety(st, fr, "index", in, 0, and(app("<=", "0", iv.S), app("<", iv.S, app("strlen", xv.S))), "string index in range")
		r := x.define(st, "ch", "Int", app("str_at", xv.S, iv.S))
		x.assume(st, and(app("<=", "0", r), app("<=", r, "255")))
		return Term{r, in.Type()}
	}
	bail("lookup on %s", in.X.Type())
	return nil
}

func (x *Exec) mapUpdate(st *State, fr *Frame, m Term, k, v string, in ssa.Instruction) {
	mt := m.T.Underlying().(*types.Map)
	x.safety(st, fr, "nil-map", in, 0, not(eq(m.S, "0")), "assignment to entry in non-nil map")
	x.frameCheck(st, fr, m.S, in)
	dn, vn, ks, vs := x.mapNames(mt)
	ds, vsrt := "(Array Int (Array "+ks+" Bool))", "(Array Int (Array "+ks+" "+vs+"))"
	dom := x.getArr(st, dn, ds)
	val := x.getArr(st, vn, vsrt)
	present := x.define(st, "pres", "Bool", app("select", app("select", dom, m.S), k))
	oldv := app("select", app("select", val, m.S), k)
	mc := x.getArr(st, "MC", "(Array Int Int)")
	x.setArr(st, "MC", "(Array Int Int)", app("store", mc, m.S, app("+", app("select", mc, m.S), ite(present, "0", "1"))))
	if vs == "Int" || vs == "Real" {
		ms := x.getArr(st, "MS_"+vs, "(Array Int "+vs+")")
		zero := x.reg.zero(mt.Elem())
		x.setArr(st, "MS_"+vs, "(Array Int "+vs+")", app("store", ms, m.S, app("+", app("-", app("select", ms, m.S), ite(present, oldv, zero)), v)))
	}
	x.setArr(st, dn, ds, app("store", dom, m.S, app("store", app("select", dom, m.S), k, "true")))
	x.setArr(st, vn, vsrt, app("store", val, m.S, app("store", app("select", val, m.S), k, v)))
}

func (x *Exec) mapDelete(st *State, fr *Frame, m Term, k string, in ssa.Instruction) {
	mt := m.T.Underlying().(*types.Map)
	x.frameCheck(st, fr, m.S, in)
	dn, vn, ks, vs := x.mapNames(mt)
	ds, vsrt := "(Array Int (Array "+ks+" Bool))", "(Array Int (Array "+ks+" "+vs+"))"
	dom := x.getArr(st, dn, ds)
	val := x.getArr(st, vn, vsrt)
	present := x.define(st, "pres", "Bool", app("select", app("select", dom, m.S), k))
	oldv := app("select", app("select", val, m.S), k)
	mc := x.getArr(st, "MC", "(Array Int Int)")
	x.setArr(st, "MC", "(Array Int Int)", app("store", mc, m.S, app("-", app("select", mc, m.S), ite(present, "1", "0"))))
	if vs == "Int" || vs == "Real" {
		ms := x.getArr(st, "MS_"+vs, "(Array Int "+vs+")")
		x.setArr(st, "MS_"+vs, "(Array Int "+vs+")", app("store", ms, m.S, app("-", app("select", ms, m.S), ite(present, oldv, x.reg.zero(mt.Elem())))))
	}
	x.setArr(st, dn, ds, app("store", dom, m.S, app("store", app("select", dom, m.S), k, "false")))
}

func (x *Exec) next(st *State, fr *Frame, in *ssa.Next) Val {
	it := x.valueOf(st, fr, in.Iter).(*RangeIter)
	boolT := types.Typ[types.Bool]
	mt := it.MapT
	m := it.Map.(Term).S
	ks := x.sortOf(mt.Key())
	seen := st.cells[it.Seen].(Term).S
	dom := x.mapDom(st, mt, m)
	ok := x.declare(st, "rng_ok", "Bool")
	k := x.declare(st, "rng_k", ks)
	// ok  => k in dom, not yet seen ; !ok => every key of dom has been seen
	x.assume(st, implies(ok, and(app("select", dom, k), not(app("select", seen, k)))))
	q := x.fresh("q")
	x.assume(st, implies(not(ok), "(forall (("+q+" "+ks+")) (=> (select "+dom+" "+q+") (select "+seen+" "+q+")))"))
	x.assumeTypeInv(st, k, mt.Key())
	v := x.typed(st, x.define(st, "rng_v", x.sortOf(mt.Elem()), app("select", x.mapVal(st, mt, m), k)), mt.Elem())
	// a successful step proves the map non-empty
	x.assume(st, implies(ok, app(">=", x.mapCard(st, m), "1")))
	// update seen only when ok (harmless otherwise)
	st.cells[it.Seen] = Term{x.define(st, "seen", "(Array "+ks+" Bool)", ite(ok, app("store", seen, k, "true"), seen)), nil}
	if it.SeenSum != nil {
		// ghost partial sum; a complete iteration over an unmodified map has visited every value
		// once, so the partial sum then equals the map's total (finite-sum axiom, trusted)
		vs := x.sortOf(mt.Elem())
		cur := st.cells[it.SeenSum].(Term).S
		unchanged := and(eq(x.mapDom(st, mt, m), it.StartDom), eq(x.mapVal(st, mt, m), it.StartVal))
		x.assume(st, implies(and(not(ok), unchanged), eq(cur, it.StartSum)))
		nxt := x.define(st, "seensum", vs, ite(ok, app("+", cur, v.(Term).S), cur))
		st.cells[it.SeenSum] = Term{nxt, mt.Elem()}
		// partial sums of non-negative values are bounded by the total
		qk := x.fresh("k")
		zero := x.reg.zero(mt.Elem())
		guard := app("select", it.StartDom, qk)
		if b, ok := mt.Key().Underlying().(*types.Basic); ok && b.Info()&types.IsString != 0 {
			guard = and(app("<=", "0", qk), guard) // strings are the non-negative integers
		}
		nonneg := "(forall ((" + qk + " " + ks + ")) (=> " + guard + " (>= (select " + it.StartVal + " " + qk + ") " + zero + ")))"
		x.assume(st, implies(and(unchanged, nonneg), and(app("<=", zero, cur), app("<=", cur, nxt), app("<=", nxt, it.StartSum))))
		x.used("finite sums: a completed range over an unmodified numeric map has summed exactly msum(map)")
	}
	return Tuple{Term{ok, boolT}, Term{k, mt.Key()}, v}
}

var _ = constant.MakeBool
var _ = strings.Contains

// escapesAsValue: is the address of this allocation used other than for loads, stores through it,
// field/element addressing and closure capture?
func escapesAsValue(a *ssa.Alloc) bool {
	if a.Referrers() == nil {
		return false
	}
	for _, r := range *a.Referrers() {
		switch u := r.(type) {
		case *ssa.Store:
			if u.Val == ssa.Value(a) {
				return true
			}
		case *ssa.UnOp, *ssa.MakeClosure, *ssa.DebugRef:
		case *ssa.FieldAddr:
		case *ssa.IndexAddr:
		default:
			return true
		}
	}
	return false
}
