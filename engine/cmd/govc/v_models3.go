package main

import (
	"go/types"

	"golang.org/x/tools/go/ssa"
)

func init() {
	// math.Modf(f) = (integer part, fractional part) with the sign of f, on the real-number reading
	models["math.Modf"] = func(x *Exec, st *State, fr *Frame, in ssa.Instruction, fn *ssa.Function, args []Val, k callCont) {
		x.used("math.Modf (integer part truncated toward zero, fractional part f - int; on the real-number reading of float64)")
		a := args[0].(Term)
		ip := x.define(st, "modf_i", "Real", app("to_real", app("trunc", a.S)))
		fp := x.define(st, "modf_f", "Real", app("-", a.S, ip))
		k(st, Tuple{Term{ip, a.T}, Term{fp, a.T}})
	}
	// strings.Join(elems, sep): the result is a string that lists exactly the elements of elems
	// (str_listed r e: e is one of the joined elements). Element order and separator are not modelled;
	// joining no element gives the empty string.
	models["strings.Join"] = func(x *Exec, st *State, fr *Frame, in ssa.Instruction, fn *ssa.Function, args []Val, k callCont) {
		x.used("strings.Join (the result lists exactly the elements of the slice: str_listed(result, e) <==> e is an element; empty slice gives \"\")")
		x.reg.declFun("str_listed", "(Int Int) Bool")
		s := args[0].(Term).S
		name, asrt := x.arrName(types.Typ[types.String])
		arr := x.getArr(st, name, asrt)
		r := x.declare(st, "joined", "Int")
		e, i := x.fresh("e"), x.fresh("i")
		elem := app("select", app("select", arr, app("s_arr", s)), app("at", app("s_off", s), i))
		x.assume(st, "(forall (("+e+" Int)) (! (= (str_listed "+r+" "+e+") (exists (("+i+" Int)) (and (<= 0 "+i+") (< "+i+" (s_len "+s+")) (= "+elem+" "+e+")))) :pattern ((str_listed "+r+" "+e+"))))")
		x.assume(st, "(forall (("+i+" Int)) (! (=> (and (<= 0 "+i+") (< "+i+" (s_len "+s+"))) (str_listed "+r+" "+elem+")) :pattern ("+elem+")))")
		x.assume(st, implies(eq(app("s_len", s), "0"), eq(r, x.reg.strLit(""))))
		x.assume(st, app(">=", r, "0"))
		k(st, Term{r, types.Typ[types.String]})
	}
	// mapstructure.Decode(input, output) / json.Unmarshal(data, v): only the output object is written
	outOnly := func(what string) modelFn {
		return func(x *Exec, st *State, fr *Frame, in ssa.Instruction, fn *ssa.Function, args []Val, k callCont) {
			x.used(what + " (writes only the object its second argument points to; result unconstrained)")
			x.havocArgObjects(st, fr, in, args, map[int]bool{1: true})
			k(st, x.havocResults(st, "r_"+sanitize(fn.Name()), fn.Signature))
		}
	}
	models["github.com/mitchellh/mapstructure.Decode"] = outOnly("mapstructure.Decode")
	models["encoding/json.Unmarshal"] = outOnly("json.Unmarshal")
}
