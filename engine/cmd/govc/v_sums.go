package main

import (
	"go/types"

	"golang.org/x/tools/go/ssa"
)

type heapViewInfo struct {
	e   Expr
	pkg *ssa.Package
}

// sumsPreserved: a permutation of the elements at off..off+n preserves every registered field sum.
func (x *Exec) sumsPreserved(st *State, et types.Type, oldArr, newArr, off, n string) {
	for _, f := range x.sumFuncs(et) {
		x.assume(st, eq(app(f, newArr, app("at", off, "0"), app("at", off, n)), app(f, oldArr, app("at", off, "0"), app("at", off, n))))
	}
}

// sumFuncs returns the names of the registered field-sum functions of element type et,
// declaring them (with their unfolding axioms) on first use.
func (x *Exec) sumFuncs(et types.Type) []string {
	n, ok := et.(*types.Named)
	if !ok {
		return nil
	}
	var out []string
	for _, f := range x.sumFields[n.Obj().Name()] {
		out = append(out, x.sumFunc(et, f))
	}
	return out
}

func (x *Exec) sumFunc(et types.Type, field string) string {
	si := x.structInfo(et)
	idx := fieldIndex(si.st, field)
	name := "ssum_" + si.sort + "_" + sanitize(field)
	if _, ok := x.reg.funcs[name]; ok {
		return name
	}
	fs := si.fsorts[idx]
	zero := "0"
	if fs == "Real" {
		zero = "0.0"
	}
	x.reg.declFun(name, "((Array Int "+si.sort+") Int Int) "+fs)
	acc := si.fields[idx]
	x.trusted["finite sums: "+name+"(a,lo,hi) = sum of a[i]."+field+" for lo <= i < hi (empty, unfold-left and unfold-right axioms)"] = true
	ax := func(body string) {
		x.reg.axioms = append(x.reg.axioms, "(assert (forall ((a (Array Int "+si.sort+")) (lo Int) (hi Int)) (! "+body+" :pattern (("+name+" a lo hi)))))")
	}
	ax("(=> (>= lo hi) (= (" + name + " a lo hi) " + zero + "))")
	ax("(=> (< lo hi) (= (" + name + " a lo hi) (+ (" + acc + " (select a lo)) (" + name + " a (+ lo 1) hi))))")
	ax("(=> (< lo hi) (= (" + name + " a lo hi) (+ (" + name + " a lo (- hi 1)) (" + acc + " (select a (- hi 1))))))")
	return name
}
