package main

import (
	"go/token"
	"sort"
	"fmt"
	"go/types"
	"strings"

	"golang.org/x/tools/go/ssa"
)

type callCont func(st *State, res Val)

func unpack(res Val) []Val {
	if t, ok := res.(Tuple); ok {
		return t
	}
	if res == nil {
		return nil
	}
	return []Val{res}
}

// traceName: "pkg.Func" for functions, "Type.Method" for methods (no pointer star).
func traceName(fn *ssa.Function) string {
	if fn.Signature.Recv() != nil {
		rt := fn.Signature.Recv().Type()
		if p, ok := rt.(*types.Pointer); ok {
			rt = p.Elem()
		}
		s := types.TypeString(rt, func(*types.Package) string { return "" })
		return s + "." + fn.Name()
	}
	f := fn
	if fn.Origin() != nil {
		f = fn.Origin()
	}
	if f.Pkg != nil {
		return f.Pkg.Pkg.Name() + "." + f.Name()
	}
	return f.Name()
}

func packResults(res []Val) Val {
	switch len(res) {
	case 0:
		return nil
	case 1:
		return res[0]
	}
	return Tuple(res)
}

func (x *Exec) doCall(st *State, fr *Frame, in ssa.Instruction, cc *ssa.CallCommon, fv Val, args []Val, k callCont) {
	if cc.IsInvoke() {
		x.invoke(st, fr, in, cc, fv, args, k)
		return
	}
	switch f := fv.(type) {
	case *ssa.Builtin:
		k(st, x.builtin(st, fr, in, cc, f, args))
	case *StaticFn:
		x.callStatic(st, fr, in, f.Fn, nil, args, k)
	case *Closure:
		x.callStatic(st, fr, in, f.Fn, f.Bind, args, k)
	case *FuncParam:
		x.callAbstract(st, fr, in, f, cc.Signature(), args, k)
	case *Noop:
		k(st, nil)
	case Term:
		x.note("call of a function value loaded from memory is havoc")
		// `assert before call VAR#k` may name the local variable that holds the function value
		if u, ok := cc.Value.(*ssa.UnOp); ok {
			if a, ok := u.X.(*ssa.Alloc); ok && a.Comment != "" {
				x.assertBeforeCall(st, fr, in, a.Comment, args)
			}
		}
		x.havocArgObjects(st, fr, in, args, nil)
		k(st, x.havocResults(st, "dyn", cc.Signature()))
	default:
		bail("call of %T", fv)
	}
}

func (x *Exec) havocResults(st *State, prefix string, sig *types.Signature) Val {
	var res []Val
	for i := 0; i < sig.Results().Len(); i++ {
		res = append(res, x.havocVal(st, prefix, sig.Results().At(i).Type()))
	}
	return packResults(res)
}

func (x *Exec) callAbstract(st *State, fr *Frame, in ssa.Instruction, f *FuncParam, sig *types.Signature, args []Val, k callCont) {
	if in != nil {
		x.safety(st, fr, "nil-func", in, 0, not(f.Nil), "called function value is non-nil")
	}
	var res []Val
	// param spec of the function under verification?
	var ps *ParamSpec
	for fp := fr; fp != nil; fp = fp.parent {
		if fp.contract != nil {
			if p, ok := fp.contract.Params[f.Name]; ok {
				ps = p
				break
			}
		}
	}
	if ps != nil {
		env := x.newEnv(st, nil, fr)
		for i, n := range ps.Params {
			if i < len(args) {
				env.vars[n] = args[i]
			}
		}
		res = []Val{env.eval(ps.Body)}
	} else {
		for i := 0; i < sig.Results().Len(); i++ {
			res = append(res, x.havocVal(st, "r_"+sanitize(f.Name), sig.Results().At(i).Type()))
		}
	}
	x.seqCtr++
	st.trace = append(st.trace, &CallEvent{Callee: f.Name, Args: args, Res: res, Seq: x.seqCtr})
	k(st, packResults(res))
}

func (x *Exec) invoke(st *State, fr *Frame, in ssa.Instruction, cc *ssa.CallCommon, recv Val, args []Val, k callCont) {
	if i, ok := recv.(*Iface); ok {
		ms := x.prog.MethodSets.MethodSet(i.Dyn)
		sel := ms.Lookup(cc.Method.Pkg(), cc.Method.Name())
		if sel == nil {
			bail("method %s not found on %s", cc.Method.Name(), i.Dyn)
		}
		fn := x.prog.MethodValue(sel)
		if fn == nil {
			bail("no method value for %s", cc.Method.Name())
		}
		x.callStatic(st, fr, in, fn, nil, append([]Val{i.V}, args...), k)
		return
	}
	// unknown dynamic type: interface contract or havoc
	x.assertBeforeCall(st, fr, in, cc.Method.Name(), append([]Val{recv}, args...))
	name := types.TypeString(cc.Value.Type(), func(p *types.Package) string { return "" }) + "." + cc.Method.Name()
	if m := x.ifaceModel(name); m != nil {
		m(x, st, fr, in, cc, recv, args, k)
		return
	}
	if c := x.ifaceContract(cc); c != nil {
		x.applyIfaceContract(st, fr, in, cc, c, name, recv, args, k)
		return
	}
	x.trusted["interface method "+name+" (no contract): results unconstrained; objects passed to it by pointer, map or slice may be rewritten (one level), nothing else"] = true
	x.havocArgObjects(st, fr, in, args, nil)
	sig := cc.Signature()
	res := x.havocResults(st, "r_"+sanitize(cc.Method.Name()), sig)
	x.seqCtr++
	var rs []Val
	if t, ok := res.(Tuple); ok {
		rs = t
	} else if res != nil {
		rs = []Val{res}
	}
	st.trace = append(st.trace, &CallEvent{Callee: name, Args: append([]Val{recv}, args...), Res: rs, Seq: x.seqCtr})
	k(st, res)
}

func (x *Exec) callStatic(st *State, fr *Frame, in ssa.Instruction, fn *ssa.Function, bind []Val, args []Val, k callCont) {
	full := fn.String()
	if fn.Origin() != nil {
		full = fn.Origin().String()
	}
	x.assertBeforeCall(st, fr, in, fn.Name(), args)
	if m := x.model(full); m != nil {
		m(x, st, fr, in, fn, args, func(st2 *State, res Val) {
			x.seqCtr++
			st2.trace = append(st2.trace, &CallEvent{Callee: traceName(fn), Args: args, Res: unpack(res), Seq: x.seqCtr})
			k(st2, res)
		})
		return
	}
	c := x.contractFor(fn)
	// function literals are executed in place unless they carry a real contract (requires/ensures)
	modular := c != nil && !c.Inline && fr != nil && x.pureEval == 0
	if modular && fn.Parent() != nil {
		modular = false
		for _, cl := range c.Clauses {
			if cl.Kind == "ensures" || cl.Kind == "requires" {
				modular = true
			}
		}
	}
	if modular {
		x.applyContract(st, fr, in, fn, c, bind, args, k)
		return
	}
	if fn.Blocks == nil {
		// A function whose body is not loaded may write through what it is handed: every object passed
		// to it directly by pointer, map or slice (also inside an interface value) is havocked, and the
		// write must be allowed by the caller's frame. Objects reachable only through fields are assumed
		// untouched (listed).
		x.trusted["external function "+full+": results unconstrained; objects passed to it by pointer, map or slice may be rewritten (one level), nothing else"] = true
		x.havocArgObjects(st, fr, in, args, nil)
		res := x.havocResults(st, "r_"+sanitize(fn.Name()), fn.Signature)
		x.seqCtr++
		st.trace = append(st.trace, &CallEvent{Callee: traceName(fn), Args: args, Res: unpack(res), Seq: x.seqCtr})
		k(st, res)
		return
	}
	if fr != nil && fr.depth >= x.inlineMax {
		bail("inline depth exceeded at %s", full)
	}
	x.execFunction(st, fn, bind, args, fr, nil, func(st2 *State, res []Val, panicked bool) {
		if panicked {
			return
		}
		k(st2, packResults(res))
	})
}

// assertBeforeCall emits `assert before call NAME#k` obligations of the enclosing contract. It is
// called for every call instruction whatever the callee is (function under contract, inlined,
// external without body, library model, interface method), keyed by the callee's plain name.
func (x *Exec) assertBeforeCall(st *State, fr *Frame, in ssa.Instruction, name string, args []Val) {
	if fr == nil || in == nil || x.pureEval > 0 {
		return
	}
	if fr.contract == nil {
		return
	}
	has := false
	for _, c := range fr.contract.Clauses {
		if c.Kind == "assert" && c.Callee == name {
			has = true
		}
	}
	if !has {
		return
	}
	ord := x.staticCallOrd(fr.fn, in, name)
	for _, c := range fr.contract.Clauses {
		if c.Kind != "assert" || c.Callee != name || c.Ord != ord || !clauseActive(c, x.active) {
			continue
		}
		if x.assertSeen == nil {
			x.assertSeen = map[*Clause]bool{}
		}
		x.assertSeen[c] = true
		env := x.newEnv(st, fr.entry, fr)
		env.anchorPos = in.Pos()
		for i, a := range args {
			env.vars[fmt.Sprintf("arg%d", i)] = a
		}
		g := env.evalBool(c.E)
		x.oblige(st, fr, "assert@call", clauseTag(c), c, 0, g, c.Src)
	}
}

// execFunction runs fn's body. contract != nil marks a top-level (verified) activation.
type topInfo struct {
	contract *FuncContract
	mods     []string
}

func (x *Exec) execFunction(st *State, fn *ssa.Function, bind []Val, args []Val, parent *Frame, top *topInfo, k retCont) {
	if fn.Blocks == nil {
		bail("no body for %s", fn)
	}
	fr := &Frame{fn: fn, regs: map[ssa.Value]Val{}, allocCell: map[*ssa.Alloc]*Cell{}, free: bind, parent: parent,
		loops: map[*ssa.BasicBlock]*activeLoop{}, callOrd: map[string]int{}, params: map[string]Val{}}
	if parent != nil {
		fr.depth = parent.depth + 1
	}
	if top != nil {
		fr.contract, fr.top, fr.mods = top.contract, true, top.mods
	} else {
		fr.contract = x.contractFor(fn) // inlined: loop invariants still come from its contract
	}
	if len(args) != len(fn.Params) {
		bail("arity mismatch calling %s: %d args for %d params", fn, len(args), len(fn.Params))
	}
	for i, p := range fn.Params {
		fr.regs[p] = args[i]
		fr.params[p.Name()] = args[i]
	}
	fr.entry = st.clone()
	fr.entryAlloc = st.allocCtr
	x.funcsSeen[funcFull(fn)] = true
	x.enterBlock(st, fr, fn.Blocks[0], nil, k)
}

// ---------- contract application at a call site ----------

func (x *Exec) applyContract(st *State, fr *Frame, in ssa.Instruction, fn *ssa.Function, c *FuncContract, bind []Val, args []Val, k callCont) {
	// captured variables of a function literal are addressed by name in its contract
	freeCells := map[string]*Cell{}
	for i, fv := range fn.FreeVars {
		if i < len(bind) {
			if p, ok := bind[i].(*Place); ok && p.Kind == pkCell && len(p.Path) == 0 {
				freeCells[fv.Name()] = p.Cell
			}
		}
	}
	pre := st.clone()
	params := map[string]Val{}
	for i, p := range fn.Params {
		params[p.Name()] = args[i]
	}
	mkEnv := func(cur, old *State) *SpecEnv {
		env := x.newEnv(cur, old, nil)
		env.fn = fn
		for n, v := range params {
			env.vars[n] = v
		}
		env.entryAlloc = pre.allocCtr
		env.freeCells = freeCells
		return env
	}
	// requires
	for _, cl := range c.Clauses {
		if cl.Kind != "requires" || !clauseActive(cl, x.active) {
			continue
		}
		g := mkEnv(st, nil).evalBool(cl.E)
		x.oblige(st, fr, "requires@call:"+funcKey(fn), clauseTag(cl), in, cl.Line, g, "precondition of "+funcKey(fn)+": "+cl.Src)
		x.assume(st, g)
	}
	// function-typed arguments must satisfy the callee's `param` specifications
	for i, p := range fn.Params {
		ps, ok := c.Params[p.Name()]
		if !ok || i >= len(args) {
			continue
		}
		switch args[i].(type) {
		case *Closure, *StaticFn:
			env := mkEnv(st, nil)
			var bvs []Val
			var binds []string
			for _, pn := range ps.Params {
				nm := x.fresh("pv")
				binds = append(binds, "("+nm+" Int)")
				env.vars[pn] = Term{nm, types.Typ[types.Int]}
				bvs = append(bvs, Term{nm, types.Typ[types.Int]})
			}
			want := env.term(env.eval(ps.Body))
			got := x.callValPure(st, fr, args[i], bvs)
			goal := "(forall (" + strings.Join(binds, "") + ") " + eq(got.S, want.S) + ")"
			x.oblige(st, fr, "param-spec:"+funcKey(fn)+"."+p.Name(), "", in, i, goal, "argument "+p.Name()+" satisfies `param "+ps.Src+"`")
		default:
			x.note("function argument " + p.Name() + " of " + funcKey(fn) + " is itself abstract: its `param` specification is assumed")
		}
	}
	// modifies
	var mods []string
	for _, cl := range c.Clauses {
		if cl.Kind != "modifies" {
			continue
		}
		for _, e := range cl.Es {
			mods = append(mods, mkEnv(st, nil).evalRef(e))
		}
	}
	// the callee's writes must be allowed in the caller's frame as well
	for _, m := range mods {
		if strings.HasPrefix(m, "@PRED@") {
			x.note("set-valued modifies clause of callee " + funcKey(fn) + " is not re-checked against the caller's frame")
			continue
		}
		x.frameCheck(st, fr, m, in)
	}
	x.havocForCall(st, fn, mods)
	// captured variables the literal assigns
	for _, i := range sortedInts(x.modSetOf(fn).frees) {
		if i < len(bind) {
			if p, ok := bind[i].(*Place); ok && p.Kind == pkCell && len(p.Path) == 0 {
				st.cells[p.Cell] = x.havocCell(st, p.Cell, st.cells[p.Cell])
			}
		}
	}
	// results
	sig := fn.Signature
	var res []Val
	for i := 0; i < sig.Results().Len(); i++ {
		rt := sig.Results().At(i).Type()
		if i == 0 && c.ResultIs != "" {
			dyn := x.resolveType(fn, c.ResultIs)
			r := x.declare(st, "res", "Int")
			x.assume(st, and(app(">=", r, pre.allocCtr), app("<", r, st.allocCtr)))
			res = append(res, &Iface{Dyn: dyn, V: Term{r, dyn}})
			continue
		}
		res = append(res, x.havocVal(st, "res_"+sanitize(fn.Name()), rt))
	}
	env := mkEnv(st, pre)
	env.bindResults(fn, res)
	for _, cl := range c.Clauses {
		if cl.Kind != "ensures" || !clauseActive(cl, x.active) {
			continue
		}
		if mentionsTrace(cl.E) {
			continue // speaks about the callee's own call trace: meaningless to the caller
		}
		if g, ok := x.tryEvalBool(env, cl.E); ok {
			x.assume(st, g)
		} else {
			x.note("ensures clause of " + funcKey(fn) + " not applicable at an instantiation and skipped: " + cl.Src)
		}
	}
	x.seqCtr++
	cev := &CallEvent{Callee: traceName(fn), Args: args, Res: res, Seq: x.seqCtr}
	st.trace = append(st.trace, cev)
	cev.After = st.clone()
	if c.Trusted {
		x.trusted["contract of "+funcFull(fn)+" is assumed (trusted)"] = true
	}
	k(st, packResults(res))
}

// havocForCall havocs the heap arrays a callee may write; objects that existed before the
// call and are not in mods keep their content.
func (x *Exec) havocForCall(st *State, fn *ssa.Function, mods []string) {
	ms := x.modSetOf(fn)
	oldAlloc := st.allocCtr
	newAlloc := x.declare(st, "alloc", "Int")
	x.assume(st, app(">=", newAlloc, oldAlloc))
	st.allocCtr = newAlloc
	names := map[string]bool{}
	if ms.all {
		for n := range st.heap {
			names[n] = true
		}
	}
	for _, n := range sortedKeys(keysOf(ms.arrays)) {
		x.getArr(st, n, ms.arrays[n])
		names[n] = true
	}
	for _, n := range sortedKeys(names) {
		x.havocArray(st, n, oldAlloc, mods)
	}
}

func (x *Exec) havocArray(st *State, name, below string, except []string) {
	srt := x.arrSort(name)
	if srt == "" {
		// never materialised on this path: materialise first so that the frame axiom is meaningful
		return
	}
	old := x.getArr(st, name, srt)
	raw := x.declare(st, name+"_h", srt)
	// the nil object (reference 0) is never written, whatever the modifies clause evaluates to
	var notMod []string
	for _, m := range except {
		notMod = append(notMod, not(modMatch("r!", m)))
	}
	keep := and(app("<", "r!", below), or(eq("r!", "0"), and(notMod...)))
	es := strings.TrimSuffix(strings.TrimPrefix(srt, "(Array Int "), ")")
	// quantifier-free frame: old objects that may not be written keep their content (array lambda)
	nw := x.declare(st, name, srt) // a plain constant, so that it can appear in quantifier patterns
	st.add("(assert (= " + nw + " (lambda ((r! Int)) (ite " + keep + " (select " + old + " r!) (select " + raw + " r!)))))")
	_ = es
	st.heap[name] = nw
	if name == "MC" {
		q := x.fresh("r")
		x.assume(st, "(forall (("+q+" Int)) (! (>= (select "+raw+" "+q+") 0) :pattern ((select "+raw+" "+q+"))))")
	}
}

func sortedKeys(m map[string]bool) []string {
	var ks []string
	for k := range m {
		ks = append(ks, k)
	}
	sortStrings(ks)
	return ks
}

func sortStrings(a []string) {
	for i := 1; i < len(a); i++ {
		for j := i; j > 0 && a[j] < a[j-1]; j-- {
			a[j], a[j-1] = a[j-1], a[j]
		}
	}
}

func (x *Exec) resolveType(fn *ssa.Function, name string) types.Type {
	ptr := 0
	for strings.HasPrefix(name, "*") {
		ptr++
		name = name[1:]
	}
	isSlice := false
	if strings.HasPrefix(name, "[]") {
		isSlice = true
		name = name[2:]
	}
	var T types.Type
	switch name {
	case "int":
		T = types.Typ[types.Int]
	case "int64":
		T = types.Typ[types.Int64]
	case "string":
		T = types.Typ[types.String]
	case "bool":
		T = types.Typ[types.Bool]
	case "float64":
		T = types.Typ[types.Float64]
	case "ref":
		T = types.Typ[types.Int]
	case "error":
		T = types.Universe.Lookup("error").Type()
	default:
		var pkg *types.Package
		f := fn
		for f != nil && f.Pkg == nil {
			if f.Origin() != nil && f.Origin().Pkg != nil {
				f = f.Origin()
				break
			}
			f = f.Parent()
		}
		if f != nil && f.Pkg != nil {
			pkg = f.Pkg.Pkg
		}
		if i := strings.Index(name, "."); i >= 0 && pkg != nil {
			// the qualifier may be the package name or a file-local import alias such as
			// `plugintypes`: accept an import whose name is a suffix of the qualifier
			for pass := 0; pass < 2 && T == nil; pass++ {
				for _, imp := range pkg.Imports() {
					if (pass == 0 && imp.Name() == name[:i]) || (pass == 1 && strings.HasSuffix(name[:i], imp.Name())) {
						if o := imp.Scope().Lookup(name[i+1:]); o != nil {
							if _, isType := o.(*types.TypeName); isType {
								T = o.Type()
								break
							}
						}
					}
				}
			}
		} else if pkg != nil {
			if o := pkg.Scope().Lookup(name); o != nil {
				T = o.Type()
			}
		}
		if T == nil {
			bail("spec: unknown type %q", name)
		}
	}
	if isSlice {
		T = types.NewSlice(T)
	}
	for ; ptr > 0; ptr-- {
		T = types.NewPointer(T)
	}
	return T
}

// ---------- builtins ----------

func (x *Exec) builtin(st *State, fr *Frame, in ssa.Instruction, cc *ssa.CallCommon, b *ssa.Builtin, args []Val) Val {
	intT := types.Typ[types.Int]
	switch b.Name() {
	case "len":
		switch u := cc.Args[0].Type().Underlying().(type) {
		case *types.Slice:
			return Term{app("s_len", args[0].(Term).S), intT}
		case *types.Map:
			return Term{x.mapCard(st, args[0].(Term).S), intT}
		case *types.Basic:
			t := args[0].(Term).S
			x.assume(st, app("<=", "0", app("strlen", t)))
			if t == "0" {
				return Term{"0", intT}
			}
			return Term{app("strlen", t), intT}
		case *types.Array:
			return Term{fmt.Sprint(u.Len()), intT}
		case *types.Pointer:
			return Term{fmt.Sprint(u.Elem().Underlying().(*types.Array).Len()), intT}
		case *types.Chan:
			return x.havocVal(st, "chanlen", intT)
		}
	case "cap":
		switch u := cc.Args[0].Type().Underlying().(type) {
		case *types.Slice:
			return Term{app("s_cap", args[0].(Term).S), intT}
		case *types.Array:
			return Term{fmt.Sprint(u.Len()), intT}
		}
	case "append":
		return x.appendOp(st, fr, in, cc, args)
	case "copy":
		return x.copyOp(st, fr, in, cc, args)
	case "delete":
		m := args[0].(Term)
		kv := x.toTerm(st, args[1], cc.Args[1].Type())
		x.mapDelete(st, fr, m, kv.S, in)
		return nil
	case "print", "println":
		return nil
	case "recover":
		return Term{"0", types.NewInterfaceType(nil, nil)}
	case "ssa:wrapnilchk":
		return args[0]
	case "ssa:deferstack":
		return Term{"0", intT}
	case "close":
		x.note("channel close ignored")
		return nil
	case "min", "max":
		t := args[0].(Term)
		srt := x.sortOf(t.T)
		fn := map[string]string{"Int": "i", "Real": "r"}[srt] + b.Name()
		cur := t.S
		for _, a := range args[1:] {
			cur = app(fn, cur, a.(Term).S)
		}
		return Term{x.define(st, "mm", srt, cur), t.T}
	}
	bail("builtin %s on %s", b.Name(), cc.Args[0].Type())
	return nil
}

// append(s, t...) always yields a fresh backing array (assumption: in-place growth is never
// observed through another slice).
func (x *Exec) appendOp(st *State, fr *Frame, in ssa.Instruction, cc *ssa.CallCommon, args []Val) Val {
	sT := cc.Args[0].Type()
	sl, ok := sT.Underlying().(*types.Slice)
	if !ok {
		bail("append to %s", sT)
	}
	x.note("append always copies into a fresh backing array (in-place growth is never observed through an alias)")
	s := args[0].(Term).S
	et := sl.Elem()
	es := x.sortOf(et)
	name, srt := x.arrName(et)
	arr := x.getArr(st, name, srt)
	var tlen string
	var tget func(i string) string
	if bt, isStr := cc.Args[1].Type().Underlying().(*types.Basic); isStr && bt.Info()&types.IsString != 0 {
		ts := args[1].(Term).S
		tlen = app("strlen", ts)
		x.reg.declFun("str_at", "(Int Int) Int")
		tget = func(i string) string { return app("str_at", ts, i) }
	} else {
		t := args[1].(Term).S
		tlen = app("s_len", t)
		tget = func(i string) string { return app("select", app("select", arr, app("s_arr", t)), app("at", app("s_off", t), i)) }
		if pa, po, lo, ok := subSliceOf(t, st); ok {
			// t is s[lo:...]: address its elements as elements of s, so that facts known about s[k]
			// (quantified over k, triggered by reads of s) apply to them by E-matching
			tget = func(i string) string { return app("select", app("select", arr, pa), app("at", po, app("+", lo, i))) }
		}
	}
	r := x.allocRefT(st, sT)
	na := x.declare(st, "apd", "(Array Int "+es+")")
	q := x.fresh("i")
	slen := app("s_len", s)
	x.assume(st, "(forall (("+q+" Int)) (! (=> (and (<= 0 "+q+") (< "+q+" "+slen+")) (= (select "+na+" "+q+") (select (select "+arr+" (s_arr "+s+")) (at (s_off "+s+") "+q+")))) :pattern ((select "+na+" "+q+"))))")
	// the same fact (at 0 i = i), addressed the way the new slice will address it and triggered by the
	// index term of the old element alone: an old element named by a hypothesis (for instance the
	// witness of an exists over the old slice) then yields its counterpart in the new slice by
	// E-matching, whichever version of the heap array the hypothesis mentions
	q0 := x.fresh("i")
	x.assume(st, "(forall (("+q0+" Int)) (! (=> (and (<= 0 "+q0+") (< "+q0+" "+slen+")) (= (select "+na+" (at 0 "+q0+")) (select (select "+arr+" (s_arr "+s+")) (at (s_off "+s+") "+q0+")))) :pattern ((at (s_off "+s+") "+q0+"))))")
	if n, ok := numeral(simplifyLen(tlen, st)); ok && n <= 8 {
		for i := int64(0); i < n; i++ {
			// addressed the way the new slice (offset 0) will address it, so that it can serve as a witness
			x.assume(st, eq(app("select", na, app("at", "0", addT(slen, fmt.Sprint(i)))), tget(fmt.Sprint(i))))
		}
	} else {
		q2 := x.fresh("i")
		x.assume(st, "(forall (("+q2+" Int)) (! (=> (and (<= 0 "+q2+") (< "+q2+" "+tlen+")) (= (select "+na+" (+ "+slen+" "+q2+")) "+tget(q2)+")) :pattern ((select "+na+" (+ "+slen+" "+q2+")))))")
		// the same fact addressed by the position in the new array, triggered by any read of it (a pattern
		// with `+` inside cannot be matched against a read at a Skolem index)
		q3 := x.fresh("i")
		x.assume(st, "(forall (("+q3+" Int)) (! (=> (and (<= "+slen+" "+q3+") (< "+q3+" (+ "+slen+" "+tlen+"))) (= (select "+na+" "+q3+") "+tget("(- "+q3+" "+slen+")")+")) :pattern ((select "+na+" "+q3+"))))")
	}
	x.setArr(st, name, srt, app("store", arr, r, na))
	nl := x.define(st, "len", "Int", app("+", slen, tlen))
	nc := x.declare(st, "cap", "Int")
	x.note("memory is finite: no slice has more than 2^48 elements (an append that would exceed it fails in the runtime, not in the code under contract)")
	x.assume(st, and(app(">=", nc, nl), app("<=", nc, "281474976710656")))
	return Term{x.define(st, "sl", "Slice", app("mk_Slice", r, "0", nl, nc)), sT}
}

// simplifyLen recognises (s_len X) where X was defined as (mk_Slice a o L c) with numeral L.
func simplifyLen(t string, st *State) string {
	if !strings.HasPrefix(t, "(s_len ") {
		return t
	}
	name := strings.TrimSuffix(strings.TrimPrefix(t, "(s_len "), ")")
	for d := st.defs; d != nil; d = d.prev {
		pre := "(define-fun " + name + " () Slice (mk_Slice "
		if strings.HasPrefix(d.line, pre) {
			f := strings.Fields(strings.TrimSuffix(d.line[len(pre):], "))"))
			if len(f) == 4 {
				return f[2]
			}
			return t
		}
	}
	return t
}

func (x *Exec) copyOp(st *State, fr *Frame, in ssa.Instruction, cc *ssa.CallCommon, args []Val) Val {
	dT := cc.Args[0].Type().Underlying().(*types.Slice)
	d := args[0].(Term).S
	et := dT.Elem()
	es := x.sortOf(et)
	name, srt := x.arrName(et)
	arr := x.getArr(st, name, srt)
	sT, ok := cc.Args[1].Type().Underlying().(*types.Slice)
	if !ok {
		bail("copy from %s", cc.Args[1].Type())
	}
	_ = sT
	s := args[1].(Term).S
	n := x.define(st, "n", "Int", app("imin", app("s_len", d), app("s_len", s)))
	x.frameCheck(st, fr, app("s_arr", d), in)
	na := x.declare(st, "cpy", "(Array Int "+es+")")
	q := x.fresh("i")
	dArr := app("select", arr, app("s_arr", d))
	sArr := app("select", arr, app("s_arr", s))
	offd, offs := app("s_off", d), app("s_off", s)
	// relative formulation (both directions usable as triggers)
	x.assume(st, "(forall (("+q+" Int)) (! (=> (and (<= 0 "+q+") (< "+q+" "+n+")) (= (select "+na+" (at "+offd+" "+q+")) (select "+sArr+" (at "+offs+" "+q+")))) :pattern ((select "+na+" (at "+offd+" "+q+"))) :pattern ((select "+sArr+" (at "+offs+" "+q+")))))")
	x.assume(st, "(forall (("+q+" Int)) (! (=> (or (< "+q+" "+offd+") (>= "+q+" (+ "+offd+" "+n+"))) (= (select "+na+" "+q+") (select "+dArr+" "+q+"))) :pattern ((select "+na+" "+q+"))))")
	for _, f := range x.sumFuncs(et) {
		x.assume(st, eq(app(f, na, app("at", offd, "0"), app("at", offd, n)), app(f, sArr, app("at", offs, "0"), app("at", offs, n))))
	}
	// when n == 0 nothing is written (also covers nil destination)
	x.setArr(st, name, srt, ite(eq(n, "0"), arr, app("store", arr, app("s_arr", d), na)))
	return Term{n, types.Typ[types.Int]}
}

// ifaceContract finds an assumed contract `func (IfaceName) Method` for a dynamically dispatched call.
func (x *Exec) ifaceContract(cc *ssa.CallCommon) *FuncContract {
	n, ok := cc.Value.Type().(*types.Named)
	if !ok {
		return nil
	}
	key := "(" + n.Obj().Name() + ")." + cc.Method.Name()
	for _, pc := range x.contracts {
		if c, ok := pc.Funcs[key]; ok {
			return c
		}
	}
	return nil
}

// applyIfaceContract: the contract of an interface method is assumed (trusted): requires are
// checked at the call, ensures are assumed about unconstrained results. Parameters are named as
// in the interface declaration (recv is `self`).
func (x *Exec) applyIfaceContract(st *State, fr *Frame, in ssa.Instruction, cc *ssa.CallCommon, c *FuncContract, name string, recv Val, args []Val, k callCont) {
	x.trusted["assumed contract of interface method "+name+" (see contract file)"] = true
	sig := cc.Signature()
	pre := st.clone()
	mk := func(cur, old *State) *SpecEnv {
		env := x.newEnv(cur, old, nil)
		env.fn = fr.fn
		env.entryAlloc = pre.allocCtr
		env.vars["self"] = recv
		for i := 0; i < sig.Params().Len() && i < len(args); i++ {
			if pn := sig.Params().At(i).Name(); pn != "" && pn != "_" {
				env.vars[pn] = args[i]
			}
			env.vars[fmt.Sprintf("a%d", i)] = args[i]
		}
		return env
	}
	for _, cl := range c.Clauses {
		if cl.Kind == "requires" && clauseActive(cl, x.active) {
			g := mk(st, nil).evalBool(cl.E)
			x.oblige(st, fr, "requires@call:"+name, clauseTag(cl), in, cl.Line, g, "precondition of "+name+": "+cl.Src)
			x.assume(st, g)
		}
	}
	// allocation may happen inside; nothing pre-existing is modified unless a modifies clause says so
	var mods []string
	for _, cl := range c.Clauses {
		if cl.Kind == "modifies" {
			for _, e := range cl.Es {
				mods = append(mods, mk(st, nil).evalRef(e))
			}
		}
	}
	oldAlloc := st.allocCtr
	na := x.declare(st, "alloc", "Int")
	x.assume(st, app(">=", na, oldAlloc))
	st.allocCtr = na
	if len(mods) > 0 {
		for _, n := range sortedKeys(keysOf(st.heap)) {
			x.havocArray(st, n, oldAlloc, mods)
		}
	}
	var res []Val
	for i := 0; i < sig.Results().Len(); i++ {
		res = append(res, x.havocVal(st, "r_"+sanitize(cc.Method.Name()), sig.Results().At(i).Type()))
	}
	env := mk(st, pre)
	for i, r := range res {
		env.vars[fmt.Sprintf("result%d", i)] = r
		if n := sig.Results().At(i).Name(); n != "" && n != "_" {
			env.vars[n] = r
		}
		if i == len(res)-1 && isErrorType(sig.Results().At(i).Type()) {
			env.vars["err"] = r
		}
	}
	if len(res) > 0 {
		env.vars["result"] = res[0]
	}
	for _, cl := range c.Clauses {
		if cl.Kind == "ensures" && clauseActive(cl, x.active) {
			if g, ok := x.tryEvalBool(env, cl.E); ok {
				x.assume(st, g)
			}
		}
	}
	x.seqCtr++
	ev := &CallEvent{Callee: name, Args: append([]Val{recv}, args...), Res: res, Seq: x.seqCtr}
	st.trace = append(st.trace, ev)
	ev.After = st.clone()
	k(st, packResults(res))
}

func keysOf(m map[string]string) map[string]bool {
	o := map[string]bool{}
	for k := range m {
		o[k] = true
	}
	return o
}

// argRef returns the reference term of the object a value designates (pointer, map, slice backing
// array, or one of those inside an interface value), or "" for a value without identity.
func (x *Exec) argRef(st *State, v Val) string {
	switch t := v.(type) {
	case *Iface:
		if t == nil || t.V == nil {
			return ""
		}
		if isContextImpl(t.Dyn) {
			return "" // contexts are immutable values by their API contract
		}
		switch t.Dyn.Underlying().(type) {
		case *types.Pointer, *types.Map, *types.Slice:
			return x.argRef(st, t.V)
		}
		return ""
	case Term:
		if t.T == nil {
			return ""
		}
		switch t.T.Underlying().(type) {
		case *types.Pointer, *types.Map:
			return t.S
		case *types.Slice:
			return app("s_arr", t.S)
		}
	case *Place:
		if s, ok := x.placeTerm(t); ok {
			return s
		}
	}
	return ""
}

// havocArgObjects havocs the objects designated by args (only those whose index is in only, when
// only != nil); each such write is checked against the caller's frame.
func (x *Exec) havocArgObjects(st *State, fr *Frame, in ssa.Instruction, args []Val, only map[int]bool) {
	var mods []string
	for i, a := range args {
		if only != nil && !only[i] {
			continue
		}
		if r := x.argRef(st, a); r != "" && r != "0" {
			mods = append(mods, r)
		}
	}
	if len(mods) == 0 {
		return
	}
	for _, m := range mods {
		x.frameCheck(st, fr, m, in)
	}
	oldAlloc := st.allocCtr
	newAlloc := x.declare(st, "alloc", "Int")
	x.assume(st, app(">=", newAlloc, oldAlloc))
	st.allocCtr = newAlloc
	for _, n := range sortedKeys(keysOf(st.heap)) {
		x.havocArray(st, n, oldAlloc, mods)
	}
}

// staticCallOrd numbers the call sites of `name` inside fn in source order (1-based): the k in
// `assert before call NAME#k` denotes a place in the source, not the k-th call executed on a path.
func (x *Exec) staticCallOrd(fn *ssa.Function, in ssa.Instruction, name string) int {
	if x.callOrds == nil {
		x.callOrds = map[*ssa.Function]map[ssa.Instruction]int{}
	}
	m, ok := x.callOrds[fn]
	if !ok {
		m = map[ssa.Instruction]int{}
		type site struct {
			in   ssa.Instruction
			name string
			pos  token.Pos
			seq  int
		}
		var sites []site
		seq := 0
		for _, b := range fn.Blocks {
			for _, ins := range b.Instrs {
				ci, ok := ins.(ssa.CallInstruction)
				if !ok {
					continue
				}
				cc := ci.Common()
				n := ""
				if cc.IsInvoke() {
					n = cc.Method.Name()
				} else if sc := cc.StaticCallee(); sc != nil {
					n = sc.Name()
				} else if u, ok := cc.Value.(*ssa.UnOp); ok {
					if a, ok := u.X.(*ssa.Alloc); ok && a.Comment != "" {
						n = a.Comment
					} else {
						continue
					}
				} else {
					continue
				}
				seq++
				sites = append(sites, site{ins, n, ins.Pos(), seq})
			}
		}
		sort.SliceStable(sites, func(i, j int) bool {
			if sites[i].pos != sites[j].pos {
				return sites[i].pos < sites[j].pos
			}
			return sites[i].seq < sites[j].seq
		})
		cnt := map[string]int{}
		for _, s := range sites {
			cnt[s.name]++
			m[s.in] = cnt[s.name]
		}
		x.callOrds[fn] = m
	}
	return m[in]
}

func isContextImpl(T types.Type) bool {
	if p, ok := T.(*types.Pointer); ok {
		T = p.Elem()
	}
	if n, ok := T.(*types.Named); ok && n.Obj().Pkg() != nil {
		return n.Obj().Pkg().Path() == "context"
	}
	return false
}

// subSliceOf recognises a slice term defined as (mk_Slice (s_arr P) (+ (s_off P) LO) ...) and returns
// (s_arr P), (s_off P) and LO.
func subSliceOf(t string, st *State) (arrT, offT, lo string, ok bool) {
	pre := "(define-fun " + t + " () Slice (mk_Slice "
	for d := st.defs; d != nil; d = d.prev {
		if !strings.HasPrefix(d.line, pre) {
			continue
		}
		body := "(mk_Slice " + strings.TrimSuffix(d.line[len(pre):], ")")
		args, good := sexprArgs(body)
		if !good || len(args) != 5 {
			return "", "", "", false
		}
		offArgs, good := sexprArgs(args[2])
		if !good || len(offArgs) != 3 || offArgs[0] != "+" {
			return "", "", "", false
		}
		if !strings.HasPrefix(args[1], "(s_arr ") || !strings.HasPrefix(offArgs[1], "(s_off ") {
			return "", "", "", false
		}
		if strings.TrimPrefix(args[1], "(s_arr ") != strings.TrimPrefix(offArgs[1], "(s_off ") {
			return "", "", "", false
		}
		return args[1], offArgs[1], offArgs[2], true
	}
	return "", "", "", false
}
