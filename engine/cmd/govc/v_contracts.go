package main

// Contract files: comment-only Go files `verif_contracts.go` (build tag verif) inside the
// package directory under /repo. Every contract line starts with `//@`.
//
//   //@ ghost NAME(a T, b U) R = EXPR
//   //@ axiom NAME: EXPR                     (trusted; listed in evidence)
//   //@ lemma[TAG] NAME: EXPR                (proved by the solver over ghost definitions)
//   //@ func NAME | func (Recv) NAME | func NAME$1
//   //@   requires EXPR
//   //@   ensures[TAG] EXPR
//   //@   modifies e1, e2
//   //@   result is TYPE
//   //@   inline | trusted | safety off | safety[TAG] | nopanic
//   //@   param f(i) = EXPR
//   //@   assert[TAG] before call NAME#k: EXPR
//   //@   loop N:
//   //@     invariant[TAG] EXPR
//   //@     decreases EXPR
//   //@     modifies e1, e2
//
// A line that is indented deeper than the clause it follows and does not start with a
// keyword continues that clause.

import (
	"bufio"
	"fmt"
	"os"
	"path/filepath"
	"regexp"
	"strings"
)

type Clause struct {
	Kind string // requires ensures invariant decreases modifies assert
	Tags []string
	Src  string
	E    Expr
	Es   []Expr // modifies
	Line int
	// assert-before-call
	Callee string
	Ord    int
}

type LoopContract struct {
	N       int
	Clauses []*Clause
}

type ParamSpec struct {
	Name   string
	Params []string
	Body   Expr
	Src    string
}

type FuncContract struct {
	Key      string // e.g. "CommunismPlan", "(infoHeap).Less", "(*infoHeap).Push"
	Clauses  []*Clause
	Loops    map[int]*LoopContract
	Inline   bool
	Trusted  bool
	PartialLoops bool // partial, but loop invariants, variants and frame conditions are checked as well
	Partial  bool // only ensures and assert-before-call clauses are checked (rest of the body is not claimed)
	Safety   string // "" default on, "off"
	SafeTags []string
	ResultIs string
	Params   map[string]*ParamSpec
	Line     int
	File     string
}

type Ghost struct {
	Name    string
	Params  []Bound
	Ret     string
	Body    Expr
	Src     string
	Rec     bool
	Trigger bool
}

type Lemma struct {
	Name  string
	Tags  []string
	E     Expr
	Src   string
	Axiom bool
}

type HeapViewDecl struct {
	Recv string
	E    Expr
	Src  string
}

type PkgContracts struct {
	HeapViews []*HeapViewDecl
	SumFields []string // "Type.Field"
	UFuns     []*Ghost // uninterpreted spec functions: ufun NAME(a T, ...) R
	Pkg    string
	File   string
	Funcs  map[string]*FuncContract
	Ghosts []*Ghost
	Lemmas []*Lemma
}

var kwRe = regexp.MustCompile(`^(heapview\b|sumfield\b|ufun\b|assume\b|requires\b|ensures\b|invariant\b|decreases\b|modifies\b|assert\b|loop \d|result is\b|inline$|trusted$|partial$|partial loops$|safety\b|param [A-Za-z_]|func\b|ghost\b|pred\b|axiom\b|lemma\b|nopanic$)`)
var tagRe = regexp.MustCompile(`^\[([^\]]*)\]`)

func loadContracts(dir, pkgPath string) (*PkgContracts, error) {
	pc := &PkgContracts{Pkg: pkgPath, Funcs: map[string]*FuncContract{}}
	path := filepath.Join(dir, "verif_contracts.go")
	f, err := os.Open(path)
	if err != nil {
		if os.IsNotExist(err) {
			return pc, nil
		}
		return nil, err
	}
	defer f.Close()
	pc.File = path
	type rawLine struct {
		indent int
		text   string
		line   int
	}
	var lines []rawLine
	sc := bufio.NewScanner(f)
	sc.Buffer(make([]byte, 1<<20), 1<<20)
	ln := 0
	for sc.Scan() {
		ln++
		t := sc.Text()
		tt := strings.TrimLeft(t, " \t")
		if !strings.HasPrefix(tt, "//@") {
			continue
		}
		body := tt[3:]
		trimmed := strings.TrimLeft(body, " \t")
		if trimmed == "" {
			continue
		}
		if strings.HasPrefix(trimmed, "#") { // comment inside contract file
			continue
		}
		indent := len(body) - len(trimmed)
		lines = append(lines, rawLine{indent, strings.TrimRight(trimmed, " \t"), ln})
	}
	// merge continuation lines
	var merged []rawLine
	for _, l := range lines {
		if len(merged) > 0 && !kwRe.MatchString(l.text) && l.indent > merged[len(merged)-1].indent {
			merged[len(merged)-1].text += " " + l.text
			continue
		}
		if len(merged) > 0 && !kwRe.MatchString(l.text) {
			return nil, fmt.Errorf("%s:%d: line is neither a clause nor a continuation: %s", path, l.line, l.text)
		}
		merged = append(merged, l)
	}
	var cur *FuncContract
	var curLoop *LoopContract
	for _, l := range merged {
		kw := kwRe.FindString(l.text)
		if f := strings.Fields(kw); len(f) > 0 {
			kw = f[0]
		}
		rest := strings.TrimSpace(l.text[len(kw):])
		var tags []string
		if m := tagRe.FindStringSubmatch(rest); m != nil {
			for _, t := range strings.Split(m[1], ",") {
				tags = append(tags, strings.TrimSpace(t))
			}
			rest = strings.TrimSpace(rest[len(m[0]):])
		}
		fail := func(e error) error { return fmt.Errorf("%s:%d: %v", path, l.line, e) }
		switch kw {
		case "ghost", "pred":
			g, err := parseGhost(rest, kw == "pred")
			if err != nil {
				return nil, fail(err)
			}
			pc.Ghosts = append(pc.Ghosts, g)
			cur, curLoop = nil, nil
		case "heapview":
			// heapview (*T) = EXPR over self
			i := strings.Index(rest, "=")
			if i < 0 || !strings.HasPrefix(rest, "(") {
				return nil, fail(fmt.Errorf("heapview (T) = EXPR"))
			}
			recv := strings.TrimSpace(rest[:i])
			recv = strings.TrimSuffix(strings.TrimPrefix(recv, "("), ")")
			e, err := parseSpecExpr(rest[i+1:])
			if err != nil {
				return nil, fail(err)
			}
			pc.HeapViews = append(pc.HeapViews, &HeapViewDecl{Recv: strings.TrimSpace(recv), E: e, Src: rest})
			cur, curLoop = nil, nil
		case "ufun":
			g, err := parseGhost(rest+" = true", false)
			if err != nil {
				return nil, fail(err)
			}
			g.Body = nil
			pc.UFuns = append(pc.UFuns, g)
			cur, curLoop = nil, nil
		case "sumfield":
			pc.SumFields = append(pc.SumFields, strings.TrimSpace(rest))
			cur, curLoop = nil, nil
		case "axiom", "lemma":
			i := strings.Index(rest, ":")
			if i < 0 {
				return nil, fail(fmt.Errorf("%s needs NAME: EXPR", kw))
			}
			e, err := parseSpecExpr(rest[i+1:])
			if err != nil {
				return nil, fail(err)
			}
			pc.Lemmas = append(pc.Lemmas, &Lemma{Name: strings.TrimSpace(rest[:i]), Tags: tags, E: e, Src: strings.TrimSpace(rest[i+1:]), Axiom: kw == "axiom"})
			cur, curLoop = nil, nil
		case "func":
			key := normFuncKey(rest)
			cur = &FuncContract{Key: key, Loops: map[int]*LoopContract{}, Params: map[string]*ParamSpec{}, Line: l.line, File: path}
			if _, dup := pc.Funcs[key]; dup {
				return nil, fail(fmt.Errorf("duplicate contract for %s", key))
			}
			pc.Funcs[key] = cur
			curLoop = nil
		default:
			if cur == nil {
				return nil, fail(fmt.Errorf("clause outside func: %s", l.text))
			}
			switch kw {
			case "loop":
				var n int
				if _, err := fmt.Sscanf(strings.TrimSuffix(rest, ":"), "%d", &n); err != nil {
					return nil, fail(fmt.Errorf("loop N: %v", err))
				}
				curLoop = &LoopContract{N: n}
				cur.Loops[n] = curLoop
			case "inline":
				cur.Inline = true
			case "trusted":
				cur.Trusted = true
			case "partial":
				cur.Partial = true
				if rest == "loops" {
					cur.PartialLoops = true
				}
			case "nopanic":
			case "safety":
				if rest == "off" {
					cur.Safety = "off"
				}
				if rest == "no-overflow" {
					cur.Safety = "no-overflow"
				}
				cur.SafeTags = tags
			case "result":
				cur.ResultIs = strings.TrimSpace(strings.TrimPrefix(rest, "is"))
			case "param":
				i := strings.Index(rest, "=")
				if i < 0 {
					return nil, fail(fmt.Errorf("param f(x) = EXPR"))
				}
				head := strings.TrimSpace(rest[:i])
				j := strings.Index(head, "(")
				if j < 0 || !strings.HasSuffix(head, ")") {
					return nil, fail(fmt.Errorf("param f(x) = EXPR"))
				}
				ps := &ParamSpec{Name: head[:j], Src: rest}
				for _, p := range strings.Split(head[j+1:len(head)-1], ",") {
					if p = strings.TrimSpace(p); p != "" {
						ps.Params = append(ps.Params, p)
					}
				}
				e, err := parseSpecExpr(rest[i+1:])
				if err != nil {
					return nil, fail(err)
				}
				ps.Body = e
				cur.Params[ps.Name] = ps
			case "modifies":
				c := &Clause{Kind: kw, Tags: tags, Src: rest, Line: l.line}
				for _, part := range splitTop(rest) {
					if part == "nothing" {
						continue
					}
					if strings.HasPrefix(part, "each ") {
						// each r :: P(r)  -- the set of objects r satisfying P
						i := strings.Index(part, "::")
						if i < 0 {
							return nil, fail(fmt.Errorf("modifies each r :: P(r)"))
						}
						body, err := parseSpecExpr(part[i+2:])
						if err != nil {
							return nil, fail(err)
						}
						c.Es = append(c.Es, &EachE{Var: strings.TrimSpace(part[5:i]), Body: body})
						continue
					}
					e, err := parseSpecExpr(part)
					if err != nil {
						return nil, fail(err)
					}
					c.Es = append(c.Es, e)
				}
				if curLoop != nil {
					curLoop.Clauses = append(curLoop.Clauses, c)
				} else {
					cur.Clauses = append(cur.Clauses, c)
				}
			case "assert":
				// assert[TAG] before call NAME#k: EXPR
				m := regexp.MustCompile(`^before call ([^\s#:]+)(?:#(\d+))?\s*:(.*)$`).FindStringSubmatch(rest)
				if m == nil {
					return nil, fail(fmt.Errorf("assert before call NAME#k: EXPR"))
				}
				e, err := parseSpecExpr(m[3])
				if err != nil {
					return nil, fail(err)
				}
				ord := 1
				if m[2] != "" {
					fmt.Sscanf(m[2], "%d", &ord)
				}
				cur.Clauses = append(cur.Clauses, &Clause{Kind: "assert", Tags: tags, Src: strings.TrimSpace(m[3]), E: e, Line: l.line, Callee: m[1], Ord: ord})
			case "requires", "ensures", "invariant", "decreases", "assume":
				e, err := parseSpecExpr(rest)
				if err != nil {
					return nil, fail(err)
				}
				c := &Clause{Kind: kw, Tags: tags, Src: rest, E: e, Line: l.line}
				if kw == "invariant" || kw == "decreases" || kw == "assume" {
					if curLoop == nil {
						return nil, fail(fmt.Errorf("%s outside loop", kw))
					}
					curLoop.Clauses = append(curLoop.Clauses, c)
				} else {
					cur.Clauses = append(cur.Clauses, c)
					curLoop = nil
				}
			default:
				return nil, fail(fmt.Errorf("unexpected keyword %s", kw))
			}
		}
	}
	return pc, nil
}

func normFuncKey(s string) string {
	s = strings.TrimSpace(s)
	// "(h *infoHeap) Push" or "(*infoHeap) Push" or "(infoHeap) Less" -> "(*infoHeap).Push"
	if strings.HasPrefix(s, "(") {
		i := strings.Index(s, ")")
		recv := strings.TrimSpace(s[1:i])
		parts := strings.Fields(recv)
		recv = parts[len(parts)-1]
		name := strings.TrimSpace(s[i+1:])
		name = strings.TrimPrefix(name, ".")
		return "(" + recv + ")." + name
	}
	return s
}

func splitTop(s string) []string {
	var out []string
	depth := 0
	start := 0
	for i, c := range s {
		switch c {
		case '(', '[':
			depth++
		case ')', ']':
			depth--
		case ',':
			if depth == 0 {
				out = append(out, strings.TrimSpace(s[start:i]))
				start = i + 1
			}
		}
	}
	if t := strings.TrimSpace(s[start:]); t != "" {
		out = append(out, t)
	}
	return out
}

func parseGhost(s string, pred bool) (*Ghost, error) {
	// NAME(a T, b U) R = EXPR     (pred: no R)
	g := &Ghost{Src: s}
	if strings.HasPrefix(s, "rec ") {
		g.Rec = true
		s = strings.TrimSpace(s[4:])
	}
	i := strings.Index(s, "(")
	if i < 0 {
		return nil, fmt.Errorf("ghost NAME(params) TYPE = EXPR")
	}
	g.Name = strings.TrimSpace(s[:i])
	depth := 0
	j := i
	for ; j < len(s); j++ {
		if s[j] == '(' {
			depth++
		}
		if s[j] == ')' {
			depth--
			if depth == 0 {
				break
			}
		}
	}
	for _, p := range splitTop(s[i+1 : j]) {
		f := strings.Fields(p)
		if len(f) != 2 {
			return nil, fmt.Errorf("ghost parameter %q must be `name type`", p)
		}
		g.Params = append(g.Params, Bound{f[0], f[1]})
	}
	rest := s[j+1:]
	k := strings.Index(rest, "=")
	if k < 0 {
		return nil, fmt.Errorf("ghost needs `= EXPR`")
	}
	g.Ret = strings.TrimSpace(rest[:k])
	if pred || g.Ret == "" {
		g.Ret = "bool"
	}
	e, err := parseSpecExpr(rest[k+1:])
	if err != nil {
		return nil, err
	}
	g.Body = e
	return g, nil
}

func clauseActive(c *Clause, active map[string]bool) bool {
	if len(c.Tags) == 0 {
		return true
	}
	for _, t := range c.Tags {
		p := t
		if i := strings.Index(t, "."); i >= 0 {
			p = t[:i]
		}
		if active[p] || active["*"] {
			return true
		}
	}
	return false
}

func clauseTag(c *Clause) string {
	if len(c.Tags) == 0 {
		return ""
	}
	return strings.Join(c.Tags, ",")
}
