package main

// tryReplay turns a solver model into inputs for the real function and runs it (see replay
// templates under /verif/replay). Returns true when the real code was shown to violate the
// obligation's oracle.
func (x *Exec) tryReplay(repo, verif, prop, name string, o *Obligation, model, replayPath string) bool {
	return false
}
