package main

// Replay of a failed obligation against the real code.
//
// For every function family that has one, /verif/replay/<family>_test.go.txt is an in-package Go test
// (injected with `go test -overlay`, nothing is written into /repo) holding executable oracles written
// from the property statements. When an obligation of such a function is not discharged:
//
//   1. if the solver returned a model (`sat`), the values it gives to the function's scalar inputs and
//      to the sizes of its slices / maps are read back with (get-value ...) and handed to the test as
//      hints: the test first tries inputs that agree with the hints (model-guided);
//   2. the test then enumerates / samples small inputs of the real function deterministically and
//      checks the oracles (bounded search, labelled as such).
//
// A failing input makes the test print `REPLAY-FAIL ...`; the replay file records the command, the
// hints and that output, and the VIOLATION line carries no `no-failing-input-found` suffix.

import (
	"context"
	"encoding/json"
	"fmt"
	"go/types"
	"os"
	"os/exec"
	"path/filepath"
	"regexp"
	"strings"
	"time"

	"golang.org/x/tools/go/ssa"
)

type replayFamily struct {
	Funcs    []string `json:"funcs"`    // function names as in props.json (prefix match when ending in *)
	Pkg      string   `json:"pkg"`      // package directory relative to the repository root
	Template string   `json:"template"` // file under /verif/replay
	Test     string   `json:"test"`     // test function to run
}

type replayIndex struct {
	Families []replayFamily `json:"families"`
}

func (x *Exec) replayFamilyFor(verif, fn string) *replayFamily {
	var idx replayIndex
	b, err := os.ReadFile(filepath.Join(verif, "replay", "index.json"))
	if err != nil || json.Unmarshal(b, &idx) != nil {
		return nil
	}
	for i := range idx.Families {
		for _, f := range idx.Families[i].Funcs {
			if f == fn || (strings.HasSuffix(f, "*") && strings.HasPrefix(fn, strings.TrimSuffix(f, "*"))) {
				return &idx.Families[i]
			}
		}
	}
	return nil
}

// modelHints evaluates, in a model of the failed query, the scalar inputs of fn and the sizes of its
// slice and map inputs (one level into pointed-to structs).
func (x *Exec) modelHints(fn *ssa.Function, o *Obligation, cfg solveCfg) map[string]string {
	if fn == nil || o == nil || o.Result != "sat" || o.Raw != "" {
		return nil
	}
	type probe struct{ name, term string }
	var probes []probe
	suffix := "_" + sanitize(strings.ReplaceAll(funcKey(fn), ".", "_"))
	var add func(name, term string, T types.Type, depth int)
	add = func(name, term string, T types.Type, depth int) {
		switch u := T.Underlying().(type) {
		case *types.Basic:
			if u.Info()&(types.IsInteger|types.IsFloat|types.IsBoolean|types.IsString) != 0 {
				probes = append(probes, probe{name, term})
			}
		case *types.Slice:
			probes = append(probes, probe{name + ".len", app("s_len", term)})
		case *types.Map:
			if _, ok := x.reg.funcs["MC_0"]; ok || x.arrSort("MC") != "" {
				probes = append(probes, probe{name + ".card", app("select", "MC_0", term)})
			}
		case *types.Pointer:
			if depth > 0 {
				return
			}
			if st, ok := u.Elem().Underlying().(*types.Struct); ok {
				func() {
					defer func() { recover() }()
					hn, _ := x.heapName(u.Elem())
					si := x.structInfo(u.Elem())
					obj := app("select", hn+"_0", term)
					for i := 0; i < st.NumFields(); i++ {
						add(name+"."+st.Field(i).Name(), app(si.fields[i], obj), st.Field(i).Type(), depth+1)
					}
				}()
			}
		}
	}
	for _, p := range fn.Params {
		if p.Name() == "" || p.Name() == "_" {
			continue
		}
		if _, isSig := p.Type().Underlying().(*types.Signature); isSig {
			continue
		}
		add(p.Name(), "p_"+sanitize(p.Name())+suffix, p.Type(), 0)
	}
	if len(probes) == 0 {
		return nil
	}
	text := x.queryText(o, x.reg.prelude(), false)
	hints := map[string]string{}
	// one get-value per probe so that a term the query never declared does not spoil the others
	var b strings.Builder
	b.WriteString(strings.TrimSuffix(strings.TrimSpace(text), "(check-sat)"))
	b.WriteString("(check-sat)\n")
	for _, p := range probes {
		b.WriteString("(echo \"@" + p.name + "\")\n(get-value (" + p.term + "))\n")
	}
	file := filepath.Join(cfg.dir, "hints_"+sanitize(o.Name)+".smt2")
	os.MkdirAll(cfg.dir, 0o755)
	os.WriteFile(file, []byte(b.String()), 0o644)
	defer os.Remove(file)
	ctx, cancel := context.WithTimeout(context.Background(), 40*time.Second)
	defer cancel()
	out, _ := exec.CommandContext(ctx, "z3-new", "-T:30", file).CombinedOutput()
	lines := strings.Split(string(out), "\n")
	if len(lines) == 0 || strings.TrimSpace(lines[0]) != "sat" {
		return nil
	}
	valRe := regexp.MustCompile(`^\(\(.* (.+)\)\)$`)
	for i := 1; i+1 < len(lines); i++ {
		l := strings.TrimSpace(lines[i])
		if !strings.HasPrefix(l, "@") && !strings.HasPrefix(l, "\"@") {
			continue
		}
		name := strings.Trim(l, "\"@")
		v := strings.TrimSpace(lines[i+1])
		if strings.HasPrefix(v, "(error") {
			continue
		}
		if m := valRe.FindStringSubmatch(v); m != nil {
			hints[name] = smtValue(m[1])
		} else if j := strings.LastIndex(v, " "); j > 0 {
			hints[name] = smtValue(strings.TrimSuffix(v[j+1:], "))"))
		}
	}
	return hints
}

// smtValue renders a numeral / rational / boolean of a model as a Go-readable literal.
func smtValue(s string) string {
	s = strings.TrimSpace(s)
	neg := false
	if strings.HasPrefix(s, "(- ") && strings.HasSuffix(s, ")") {
		neg = true
		s = strings.TrimSpace(s[3 : len(s)-1])
	}
	if strings.HasPrefix(s, "(/ ") && strings.HasSuffix(s, ")") {
		parts := strings.Fields(s[3 : len(s)-1])
		if len(parts) == 2 {
			var a, b float64
			fmt.Sscan(parts[0], &a)
			fmt.Sscan(parts[1], &b)
			if b != 0 {
				s = fmt.Sprintf("%g", a/b)
			}
		}
	}
	if neg {
		s = "-" + s
	}
	return s
}

// tryReplay runs the family's replay test against the real package. Returns true when the real code
// was shown to violate an oracle (the failing input is appended to the replay file).
func (x *Exec) tryReplay(repo, verif, prop, name string, o *Obligation, fn *ssa.Function, cfg solveCfg, replayPath string) bool {
	fnName := o.Fn
	if i := strings.Index(fnName, "$"); i >= 0 {
		fnName = fnName[:i] // a function literal is replayed through its enclosing function
	}
	fam := x.replayFamilyFor(verif, fnName)
	if fam == nil {
		appendFile(replayPath, "\n--- replay ---\nno replay harness is registered for "+fnName+" (see /verif/replay/index.json)\n")
		return false
	}
	hints := x.modelHints(fn, o, cfg)
	hj, _ := json.Marshal(hints)
	ov := filepath.Join(filepath.Dir(replayPath), "overlay_"+sanitize(fam.Template)+".json")
	target := filepath.Join(repo, fam.Pkg, "zz_verif_replay_test.go")
	src := filepath.Join(verif, "replay", fam.Template)
	ovj, _ := json.Marshal(map[string]map[string]string{"Replace": {target: src}})
	os.WriteFile(ov, ovj, 0o644)
	tag := o.Tag
	if tag == "" {
		tag = o.Kind
	}
	args := []string{"test", "-overlay", ov, "-vet=off", "-count=1", "-timeout", "170s", "-run", "^" + fam.Test + "$", "./" + fam.Pkg + "/"}
	env := []string{"GOFLAGS=-mod=mod", "GOPROXY=off", "GOSUMDB=off", "GOTOOLCHAIN=local",
		"VERIF_REPLAY_FUNC=" + fnName, "VERIF_REPLAY_PROP=" + prop, "VERIF_REPLAY_TAG=" + tag, "VERIF_REPLAY_HINTS=" + string(hj)}
	ctx, cancel := context.WithTimeout(context.Background(), 200*time.Second)
	defer cancel()
	cmd := exec.CommandContext(ctx, "go", args...)
	cmd.Dir = repo
	cmd.Env = append(os.Environ(), env...)
	out, _ := cmd.CombinedOutput()
	var fails []string
	for _, l := range strings.Split(string(out), "\n") {
		if i := strings.Index(l, "REPLAY-FAIL"); i >= 0 {
			fails = append(fails, strings.TrimSpace(l[i:]))
		}
	}
	var b strings.Builder
	b.WriteString("\n--- replay against the real code ---\n")
	fmt.Fprintf(&b, "harness: /verif/replay/%s (oracles written from the property statement), injected as %s with go test -overlay\n", fam.Template, target)
	fmt.Fprintf(&b, "replay-dir: %s\nreplay-env: %s\nreplay-cmd: go %s\n", repo, strings.Join(env[4:], " "), strings.Join(args, " "))
	if len(hints) > 0 {
		fmt.Fprintf(&b, "inputs read from the solver's model (scalars and sizes): %s\n", string(hj))
	} else {
		b.WriteString("the solver returned no usable model for this obligation: the inputs below come from the harness's bounded search over small inputs of the real function\n")
	}
	if len(fails) > 0 {
		b.WriteString("result: the real code violates the oracle on a concrete input:\n")
		for i, f := range fails {
			if i < 5 {
				b.WriteString("  " + f + "\n")
			}
		}
	} else {
		b.WriteString("result: no failing input found by the harness\n")
		tail := strings.Split(strings.TrimSpace(string(out)), "\n")
		if len(tail) > 6 {
			tail = tail[len(tail)-6:]
		}
		b.WriteString("  " + strings.Join(tail, "\n  ") + "\n")
	}
	appendFile(replayPath, b.String())
	return len(fails) > 0
}

func appendFile(path, s string) {
	f, err := os.OpenFile(path, os.O_APPEND|os.O_WRONLY|os.O_CREATE, 0o644)
	if err != nil {
		return
	}
	defer f.Close()
	f.WriteString(s)
}
