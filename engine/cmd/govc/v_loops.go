package main

import (
	"fmt"
	"go/types"
	"sort"

	"golang.org/x/tools/go/ssa"
)

type modSet struct {
	arrays map[string]string // heap array name -> sort
	all    bool              // unknown writes: every materialised array
	cells  map[*ssa.Alloc]bool
	frees  map[int]bool // free variables written (by index)
	calls  bool
}

func newModSet() *modSet {
	return &modSet{arrays: map[string]string{}, cells: map[*ssa.Alloc]bool{}, frees: map[int]bool{}}
}

func (x *Exec) loopsOf(fn *ssa.Function) []*loopInfo {
	if ls, ok := x.loopCache[fn]; ok {
		return ls
	}
	var ls []*loopInfo
	byHeader := map[*ssa.BasicBlock]*loopInfo{}
	for _, b := range fn.Blocks {
		for _, s := range b.Succs {
			if s.Dominates(b) { // back edge b -> s
				li := byHeader[s]
				if li == nil {
					li = &loopInfo{header: s, body: map[*ssa.BasicBlock]bool{s: true}}
					byHeader[s] = li
					ls = append(ls, li)
				}
				// natural loop: nodes reaching b without passing s
				stack := []*ssa.BasicBlock{b}
				for len(stack) > 0 {
					n := stack[len(stack)-1]
					stack = stack[:len(stack)-1]
					if li.body[n] {
						continue
					}
					li.body[n] = true
					stack = append(stack, n.Preds...)
				}
			}
		}
	}
	sort.Slice(ls, func(i, j int) bool { return ls[i].header.Index < ls[j].header.Index })
	for i, li := range ls {
		li.ord = i + 1
	}
	x.loopCache[fn] = ls
	return ls
}

func (x *Exec) loopAt(fn *ssa.Function, b *ssa.BasicBlock) *loopInfo {
	for _, li := range x.loopsOf(fn) {
		if li.header == b {
			return li
		}
	}
	return nil
}

// ---------- static modification analysis ----------

func rootOfAddr(v ssa.Value) ssa.Value {
	for {
		switch a := v.(type) {
		case *ssa.FieldAddr:
			v = a.X
		case *ssa.IndexAddr:
			if _, isSlice := a.X.Type().Underlying().(*types.Slice); isSlice {
				return a // element of a slice backing array
			}
			v = a.X
		default:
			return v
		}
	}
}

func (x *Exec) addArr(ms *modSet, name, srt string) { ms.arrays[name] = srt }

func (x *Exec) addMapArrs(ms *modSet, mt *types.Map) {
	dn, vn, ks, vs := x.mapNames(mt)
	ms.arrays[dn] = "(Array Int (Array " + ks + " Bool))"
	ms.arrays[vn] = "(Array Int (Array " + ks + " " + vs + "))"
	ms.arrays["MC"] = "(Array Int Int)"
	if vs == "Int" || vs == "Real" {
		ms.arrays["MS_"+vs] = "(Array Int " + vs + ")"
	}
}

func (x *Exec) modInstr(ms *modSet, in ssa.Instruction, visiting map[*ssa.Function]bool) {
	switch in := in.(type) {
	case *ssa.Store:
		r := rootOfAddr(in.Addr)
		switch a := r.(type) {
		case *ssa.Alloc:
			T := a.Type().(*types.Pointer).Elem()
			if _, isStruct := T.Underlying().(*types.Struct); (isStruct && a.Heap) || (a.Heap && escapesAsValue(a)) {
				n, s := x.heapName(T)
				x.addArr(ms, n, s)
			} else if at, isArr := T.Underlying().(*types.Array); isArr {
				n, s := x.arrName(at.Elem())
				x.addArr(ms, n, s)
			} else {
				ms.cells[a] = true
			}
		case *ssa.FreeVar:
			for i, fv := range in.Parent().FreeVars {
				if fv == a {
					ms.frees[i] = true
				}
			}
			// pointee may also be a heap struct
			if pt, ok := a.Type().Underlying().(*types.Pointer); ok {
				if _, isStruct := pt.Elem().Underlying().(*types.Struct); isStruct {
					n, s := x.heapName(pt.Elem())
					x.addArr(ms, n, s)
				}
			}
		case *ssa.Global:
			// globals are cells keyed by the global; treat as unknown
		case *ssa.IndexAddr:
			et := a.X.Type().Underlying().(*types.Slice).Elem()
			n, s := x.arrName(et)
			x.addArr(ms, n, s)
		default:
			if pt, ok := r.Type().Underlying().(*types.Pointer); ok {
				n, s := x.heapName(pt.Elem())
				x.addArr(ms, n, s)
			}
		}
	case *ssa.MapUpdate:
		x.addMapArrs(ms, in.Map.Type().Underlying().(*types.Map))
	case *ssa.MakeMap:
		x.addMapArrs(ms, in.Type().Underlying().(*types.Map))
	case *ssa.MakeSlice:
		n, s := x.arrName(in.Type().Underlying().(*types.Slice).Elem())
		x.addArr(ms, n, s)
	case *ssa.Alloc:
		T := in.Type().(*types.Pointer).Elem()
		if _, isStruct := T.Underlying().(*types.Struct); (isStruct && in.Heap) || (in.Heap && escapesAsValue(in)) {
			n, s := x.heapName(T)
			x.addArr(ms, n, s)
		} else if at, isArr := T.Underlying().(*types.Array); isArr {
			n, s := x.arrName(at.Elem())
			x.addArr(ms, n, s)
		}
	case *ssa.Call:
		x.modCall(ms, &in.Call, visiting)
	case *ssa.Defer:
		x.modCall(ms, &in.Call, visiting)
	}
}

func (x *Exec) modCall(ms *modSet, cc *ssa.CallCommon, visiting map[*ssa.Function]bool) {
	if b, ok := cc.Value.(*ssa.Builtin); ok {
		switch b.Name() {
		case "append", "copy":
			if sl, ok := cc.Args[0].Type().Underlying().(*types.Slice); ok {
				n, s := x.arrName(sl.Elem())
				x.addArr(ms, n, s)
			}
		case "delete":
			x.addMapArrs(ms, cc.Args[0].Type().Underlying().(*types.Map))
		}
		return
	}
	ms.calls = true
	if cc.IsInvoke() {
		// dynamic dispatch: conservatively include every method of that name in loaded packages
		name := cc.Method.Name()
		found := false
		for fn := range x.allFuncs() {
			if fn.Signature.Recv() != nil && fn.Name() == name && fn.Blocks != nil && types.Identical(stripRecv(fn.Signature), cc.Method.Type()) {
				x.mergeMod(ms, x.modSetRec(fn, visiting), nil)
				found = true
			}
		}
		if !found {
			if c := x.ifaceContract(cc); c != nil {
				for _, cl := range c.Clauses {
					if cl.Kind == "modifies" {
						ms.all = true
					}
				}
			} else if pointerishArgs(cc) {
				ms.all = true
			}
		}
		return
	}
	switch f := cc.Value.(type) {
	case *ssa.Function:
		x.modCallee(ms, f, cc, visiting)
	case *ssa.MakeClosure:
		fn := f.Fn.(*ssa.Function)
		sub := x.modSetRec(fn, visiting)
		x.mergeMod(ms, sub, f.Bindings)
	default:
		// function value: parameters and loaded values: unknown callee. Closures created in this
		// function are accounted for by closureWrites at loop level.
	}
	// function-typed arguments that are closures may be invoked by the callee
	for _, a := range cc.Args {
		if mc, ok := a.(*ssa.MakeClosure); ok {
			sub := x.modSetRec(mc.Fn.(*ssa.Function), visiting)
			x.mergeMod(ms, sub, mc.Bindings)
		}
	}
}

func stripRecv(sig *types.Signature) *types.Signature {
	return types.NewSignatureType(nil, nil, nil, sig.Params(), sig.Results(), sig.Variadic())
}

var allFuncsCache map[*ssa.Function]bool

func (x *Exec) allFuncs() map[*ssa.Function]bool {
	if allFuncsCache == nil {
		allFuncsCache = map[*ssa.Function]bool{}
		for _, p := range x.prog.AllPackages() {
			if _, ok := x.contracts[p.Pkg.Path()]; !ok {
				continue
			}
			for _, m := range p.Members {
				switch m := m.(type) {
				case *ssa.Function:
					allFuncsCache[m] = true
				case *ssa.Type:
					for _, T := range []types.Type{m.Type(), types.NewPointer(m.Type())} {
						ms := x.prog.MethodSets.MethodSet(T)
						for i := 0; i < ms.Len(); i++ {
							if fn := x.prog.MethodValue(ms.At(i)); fn != nil {
								allFuncsCache[fn] = true
							}
						}
					}
				}
			}
		}
	}
	return allFuncsCache
}

func (x *Exec) modCallee(ms *modSet, fn *ssa.Function, cc *ssa.CallCommon, visiting map[*ssa.Function]bool) {
	full := fn.String()
	if fn.Origin() != nil {
		full = fn.Origin().String()
	}
	if eff := modelEffects(full); eff != nil {
		eff(x, ms, cc, visiting)
		return
	}
	if x.model(full) != nil {
		if writesThroughArgs[full] {
			ms.all = true
		}
		return
	}
	if fn.Blocks == nil {
		// external without body: may write the objects it is handed (see havocArgObjects)
		if pointerishArgs(cc) {
			ms.all = true
		}
		return
	}
	x.mergeMod(ms, x.modSetRec(fn, visiting), nil)
}

func (x *Exec) mergeMod(ms, sub *modSet, bindings []ssa.Value) {
	for n, s := range sub.arrays {
		ms.arrays[n] = s
	}
	if sub.all {
		ms.all = true
	}
	if sub.calls {
		ms.calls = true
	}
	for i := range sub.frees {
		if bindings != nil && i < len(bindings) {
			switch b := bindings[i].(type) {
			case *ssa.Alloc:
				ms.cells[b] = true
			case *ssa.FreeVar:
				for j, fv := range b.Parent().FreeVars {
					if fv == b {
						ms.frees[j] = true
					}
				}
			}
		}
	}
}

func (x *Exec) modSetOf(fn *ssa.Function) *modSet { return x.modSetRec(fn, map[*ssa.Function]bool{}) }

func (x *Exec) modSetRec(fn *ssa.Function, visiting map[*ssa.Function]bool) *modSet {
	if ms, ok := x.modCache[fn]; ok {
		return ms
	}
	if visiting[fn] {
		return newModSet()
	}
	visiting[fn] = true
	ms := newModSet()
	for _, b := range fn.Blocks {
		for _, in := range b.Instrs {
			x.modInstr(ms, in, visiting)
		}
	}
	delete(visiting, fn)
	// local cells of fn itself are irrelevant to callers
	ms2 := newModSet()
	ms2.arrays, ms2.all, ms2.frees, ms2.calls = ms.arrays, ms.all, ms.frees, ms.calls
	x.modCache[fn] = ms2
	return ms2
}

func (x *Exec) loopMods(fn *ssa.Function, li *loopInfo) *modSet {
	ms := newModSet()
	for _, b := range sortedBlocks(li.body) {
		for _, in := range b.Instrs {
			x.modInstr(ms, in, map[*ssa.Function]bool{fn: true})
		}
	}
	if ms.calls {
		// any closure created in this function may run inside the loop
		for _, b := range fn.Blocks {
			for _, in := range b.Instrs {
				if mc, ok := in.(*ssa.MakeClosure); ok {
					x.mergeMod(ms, x.modSetOf(mc.Fn.(*ssa.Function)), mc.Bindings)
				}
			}
		}
	}
	return ms
}

// ---------- loop entry / back edge ----------

func (x *Exec) loopContract(fr *Frame, li *loopInfo) *LoopContract {
	if fr.contract == nil {
		return nil
	}
	return fr.contract.Loops[li.ord]
}

// loopEnter is called when control reaches a loop header from outside the loop.
// Returns false if the path ends here.
func (x *Exec) loopEnter(st *State, fr *Frame, li *loopInfo, from *ssa.BasicBlock) bool {
	lc := x.loopContract(fr, li)
	if x.partialMode && !x.partialLoops {
		st.looped = true // `partial`: loop invariants are not checked, so nothing behind a loop is precise
	}
	tagFn := fmt.Sprintf("loop%d", li.ord)
	al := &activeLoop{li: li}
	// 1. invariants hold on entry
	var invs []*Clause
	if lc != nil {
		for _, c := range lc.Clauses {
			if c.Kind == "invariant" && clauseActive(c, x.active) {
				invs = append(invs, c)
			}
		}
	}
	auto := x.autoInvariants(st, fr, li)
	env := x.newEnv(st, fr.entry, fr)
	env.loopPre = st // on entry pre(e) is e
	env.curLoop = li
	for _, c := range invs {
		g := env.evalBool(c.E)
		x.oblige(st, fr, tagFn+"/invariant-entry", clauseTag(c), c, 0, g, c.Src)
	}
	// modifies clause of the loop
	if lc != nil {
		for _, c := range lc.Clauses {
			if c.Kind == "modifies" {
				al.hasMods = true
				for _, e := range c.Es {
					al.mods = append(al.mods, env.evalRef(e))
				}
			}
		}
	}
	al.pre = st.clone()
	al.entryAlloc = st.allocCtr
	// objects may be allocated by earlier iterations: the allocation counter is advanced BEFORE the
	// cells are havocked, so that a havocked pointer/slice/map variable may refer to such an object
	// (bounding it by the counter at loop entry made every path through a loop that re-assigns a
	// slice by append vacuous -- found by seeded change C07-2, see DESIGN.md section 8)
	oldAlloc := st.allocCtr
	na := x.declare(st, "alloc", "Int")
	x.assume(st, app(">=", na, oldAlloc))
	st.allocCtr = na
	// 2. havoc everything the loop may write
	ms := x.loopMods(fr.fn, li)
	for _, a := range sortedAllocs(ms.cells) {
		if c, ok := fr.allocCell[a]; ok {
			if _, have := st.cells[c]; have {
				st.cells[c] = x.havocCell(st, c, st.cells[c])
			}
		}
	}
	// free variables written by the loop body (loop inside a closure)
	for _, i := range sortedInts(ms.frees) {
		if i < len(fr.free) {
			if p, ok := fr.free[i].(*Place); ok && p.Kind == pkCell && len(p.Path) == 0 {
				st.cells[p.Cell] = x.havocCell(st, p.Cell, st.cells[p.Cell])
			}
		}
	}
	// range iterators advanced in the loop
	for _, b := range sortedBlocks(li.body) {
		for _, in := range b.Instrs {
			if nx, ok := in.(*ssa.Next); ok {
				if it, ok := fr.regs[nx.Iter].(*RangeIter); ok && it.Seen != nil {
					ks := x.sortOf(it.MapT.Key())
					st.cells[it.Seen] = Term{x.declare(st, "seen", "(Array "+ks+" Bool)"), nil}
					if it.SeenSum != nil {
						st.cells[it.SeenSum] = Term{x.declare(st, "seensum", x.sortOf(it.MapT.Elem())), it.MapT.Elem()}
					}
				}
			}
		}
	}
	names := map[string]bool{}
	for _, n := range sortedKeys(keysOf(ms.arrays)) {
		x.getArr(st, n, ms.arrays[n])
		names[n] = true
	}
	if ms.all {
		for n := range st.heap {
			names[n] = true
		}
	}
	// objects that exist at function entry (or at loop entry when the loop has its own
	// modifies clause) and are not listed as modifiable keep their content
	below := fr.topFrame().entryAlloc
	except := fr.topFrame().mods
	if al.hasMods {
		below = oldAlloc
		except = al.mods
	}
	for _, n := range sortedKeys(names) {
		x.havocArray(st, n, below, except)
	}
	// 3. assume invariants
	env2 := x.newEnv(st, fr.entry, fr)
	env2.loopPre = al.pre
	env2.curLoop = li
	for _, g := range auto {
		x.assume(st, g(st))
	}
	for _, c := range invs {
		x.assume(st, env2.evalBool(c.E))
	}
	if lc != nil {
		for _, c := range lc.Clauses {
			if c.Kind == "assume" {
				// an unchecked assumption at the loop head: trusted, listed in evidence
				x.trusted["assumed without proof at loop "+fmt.Sprint(li.ord)+" of "+funcFull(fr.fn)+": "+c.Src] = true
				x.assume(st, env2.evalBool(c.E))
			}
		}
	}
	if lc != nil {
		for _, c := range lc.Clauses {
			if c.Kind == "decreases" && clauseActive(c, x.active) {
				al.decr = append(al.decr, env2.eval(c.E).(Term).S)
			}
		}
	}
	al.entry = st.clone()
	fr.loops[li.header] = al
	return true
}

func (f *Frame) topFrame() *Frame {
	t := f
	for t.parent != nil && !t.top {
		t = t.parent
	}
	return t
}

func (x *Exec) havocCell(st *State, c *Cell, old Val) Val {
	switch o := old.(type) {
	case Term:
		if o.T == nil {
			return old
		}
		return x.havocVal(st, "h_"+sanitize(c.name), o.T)
	case *FuncParam:
		return x.havocVal(st, "h_"+sanitize(c.name), o.Sig)
	}
	if c.T != nil {
		if _, isIface := c.T.Underlying().(*types.Interface); isIface {
			return x.havocVal(st, "h_"+sanitize(c.name), c.T)
		}
	}
	bail("loop modifies cell %s holding %T, which cannot be havoc'd", c.name, old)
	return nil
}

// loopBackEdge: invariant preserved, variant decreased; the path ends.
func (x *Exec) loopBackEdge(st *State, fr *Frame, al *activeLoop) {
	lc := x.loopContract(fr, al.li)
	tagFn := fmt.Sprintf("loop%d", al.li.ord)
	env := x.newEnv(st, fr.entry, fr)
	env.loopPre = al.pre
	env.curLoop = al.li
	if lc != nil {
		for _, c := range lc.Clauses {
			if !clauseActive(c, x.active) {
				continue
			}
			switch c.Kind {
			case "invariant":
				x.oblige(st, fr, tagFn+"/invariant-preserved", clauseTag(c), c, 0, env.evalBool(c.E), c.Src)
			}
		}
		di := 0
		for _, c := range lc.Clauses {
			if c.Kind == "decreases" && clauseActive(c, x.active) {
				now := env.eval(c.E).(Term).S
				before := al.decr[di]
				di++
				x.oblige(st, fr, tagFn+"/decreases", clauseTag(c), c, 0, and(app("<=", "0", before), app("<", now, before)), "variant "+c.Src+" is bounded below and strictly decreases")
			}
		}
	}
	for _, g := range x.autoDecreases(st, fr, al) {
		x.oblige(st, fr, tagFn+"/decreases", "", al.li.header.Instrs[0], 0, g, "range loop index advances")
	}
	x.countPath()
}

// autoInvariants: facts about compiler-generated range indices: -1 <= idx < len.
func (x *Exec) autoInvariants(st *State, fr *Frame, li *loopInfo) []func(*State) string {
	var out []func(*State) string
	h := li.header
	// pattern: t = *idx; t2 = t + 1; *idx = t2; c = t2 < n; if c
	for _, in := range h.Instrs {
		bo, ok := in.(*ssa.BinOp)
		if !ok || bo.Op.String() != "<" {
			continue
		}
		inc, ok := bo.X.(*ssa.BinOp)
		if !ok || inc.Op.String() != "+" {
			continue
		}
		ld, ok := inc.X.(*ssa.UnOp)
		if !ok {
			continue
		}
		al, ok := ld.X.(*ssa.Alloc)
		if !ok || al.Comment != "rangeindex" {
			continue
		}
		if bo.Y.Parent() == nil {
			continue
		}
		if yi, ok := bo.Y.(ssa.Instruction); ok && li.body[yi.Block()] {
			continue
		}
		cell := fr.allocCell[al]
		nv, ok := fr.regs[bo.Y].(Term)
		if cell == nil || !ok {
			continue
		}
		n := nv.S
		out = append(out, func(s *State) string {
			idx := s.cells[cell].(Term).S
			return and(app("<=", "(- 1)", idx), app("<", idx, app("imax", n, "0")), app("<=", "0", n))
		})
	}
	return out
}

func (x *Exec) autoDecreases(st *State, fr *Frame, al *activeLoop) []string {
	return nil
}

// library models that write through their (second) argument
var writesThroughArgs = map[string]bool{
	"github.com/mitchellh/mapstructure.Decode": true,
	"encoding/json.Unmarshal":                  true,
}

// pointerishArgs: does the call hand over an object by pointer, map, slice or interface?
func pointerishArgs(cc *ssa.CallCommon) bool {
	for _, a := range cc.Args {
		switch a.Type().Underlying().(type) {
		case *types.Pointer, *types.Map, *types.Slice, *types.Interface:
			if mi, ok := a.(*ssa.MakeInterface); ok {
				switch mi.X.Type().Underlying().(type) {
				case *types.Pointer, *types.Map, *types.Slice:
					return true
				}
				continue
			}
			if c, ok := a.(*ssa.Const); ok && c.IsNil() {
				continue
			}
			return true
		}
	}
	return false
}
