package main

import (
	"fmt"
	"go/types"
	"runtime/debug"
	"strings"

	"golang.org/x/tools/go/ssa"
)

type FuncReport struct {
	Name     string
	Paths    int
	Error    string
	Obls     int
	Contract bool
}

// verifyFunction generates all obligations of fn against its contract.
func (x *Exec) verifyFunction(fn *ssa.Function, c *FuncContract) (rep FuncReport) {
	rep.Name = funcFull(fn)
	rep.Contract = c != nil
	x.curTop = fn
	x.curTopName = funcFull(fn)
	x.safetyOn = c == nil || c.Safety != "off"
	x.partialMode = c != nil && c.Partial
	x.partialLoops = c != nil && c.PartialLoops
	if x.partialMode && !x.partialLoops {
		x.trusted["partial contract: the ensures / assert-before-call clauses of "+funcFull(fn)+" and the run-time safety (index, slice, nil, division) of the loop-free prefix of each of its paths are checked; its loops, callee preconditions, overflow and safety behind the first loop are not claimed"] = true
	}
	if x.partialLoops {
		x.trusted["partial contract: the ensures / assert-before-call clauses, loop invariants and frame conditions of "+funcFull(fn)+" are checked; preconditions of its callees (numeric range assumptions) and run-time safety are not claimed"] = true
	}
	defer func() { x.partialMode, x.partialLoops = false, false }()
	startPaths := x.paths
	startObls := len(x.obls)
	defer func() {
		rep.Paths = x.paths - startPaths
		rep.Obls = len(x.obls) - startObls
		if r := recover(); r != nil {
			if u, ok := r.(unsupported); ok {
				rep.Error = u.msg
				return
			}
			rep.Error = fmt.Sprintf("internal error: %v\n%s", r, debug.Stack())
		}
	}()
	if c == nil {
		c = &FuncContract{Key: funcKey(fn), Loops: map[int]*LoopContract{}, Params: map[string]*ParamSpec{}}
	}
	st := &State{cells: map[*Cell]Val{}, heap: map[string]string{}}
	x.reg.declConst("alloc0", "Int")
	x.reg.axioms = appendUniq(x.reg.axioms, "(assert (>= alloc0 1))")
	st.allocCtr = "alloc0"
	// symbolic parameters
	var args []Val
	for _, p := range fn.Params {
		args = append(args, x.symbolicParam(st, fn, p))
	}
	var bind []Val
	for _, fv := range fn.FreeVars {
		// verifying a closure on its own: free variables are unknown cells
		T := fv.Type().(*types.Pointer).Elem()
		cell := x.newCell(fv.Name(), T)
		if sig, ok := T.Underlying().(*types.Signature); ok {
			// a captured function value is known to the contract by the captured variable's name
			// (called(f), res(f), arg(f, i)), like a function-typed parameter
			st.cells[cell] = &FuncParam{Name: fv.Name(), Sig: sig, Nil: x.declare(st, "fv_"+sanitize(fv.Name())+"_nil", "Bool")}
		} else {
			st.cells[cell] = x.havocVal(st, "fv_"+sanitize(fv.Name()), T)
		}
		bind = append(bind, &Place{Kind: pkCell, Cell: cell, Base: T, T: T})
	}
	env := x.newEnv(st, nil, nil)
	env.fn = fn
	env.entryAlloc = "alloc0"
	env.freeCells = map[string]*Cell{}
	for i, fv := range fn.FreeVars {
		env.freeCells[fv.Name()] = bind[i].(*Place).Cell
	}
	for i, p := range fn.Params {
		env.vars[p.Name()] = args[i]
	}
	for _, cl := range c.Clauses {
		if cl.Kind == "requires" && clauseActive(cl, x.active) {
			x.assume(st, env.evalBool(cl.E))
		}
	}
	// vacuity: the precondition (with all axioms) must be satisfiable
	x.cover(st, nil, "precondition", c, "precondition of "+funcFull(fn)+" is satisfiable")
	var mods []string
	for _, cl := range c.Clauses {
		if cl.Kind == "modifies" {
			for _, e := range cl.Es {
				mods = append(mods, env.evalRef(e))
			}
		}
	}
	entry := st.clone()
	top := &topInfo{contract: c, mods: mods}
	nret := 0
	x.execFunction(st, fn, bind, args, nil, top, func(st2 *State, res []Val, panicked bool) {
		if panicked {
			return
		}
		nret++
		penv := x.newEnv(st2, entry, nil)
		if x.retFrame != nil && x.retFrame.fn == fn {
			penv.fr = x.retFrame // postconditions may mention locals (their values at the return)
		}
		penv.fn = fn
		penv.entryAlloc = "alloc0"
		penv.freeCells = env.freeCells
		for i, p := range fn.Params {
			penv.vars[p.Name()] = args[i]
		}
		penv.bindResults(fn, res)
		if c.ResultIs != "" && len(res) > 0 {
			dyn := x.resolveType(fn, c.ResultIs)
			i, ok := res[0].(*Iface)
			g := "false"
			if ok && types.Identical(i.Dyn, dyn) {
				g = "true"
			}
			x.oblige(st2, nil, "result-type", "", c, 0, g, "result has dynamic type "+c.ResultIs)
		}
		for _, cl := range c.Clauses {
			if cl.Kind != "ensures" || !clauseActive(cl, x.active) {
				continue
			}
			g := penv.evalBool(cl.E)
			x.oblige(st2, nil, "ensures", clauseTag(cl), cl, 0, g, cl.Src)
		}
	})
	// vacuity guard: an `assert before call NAME#k` whose call site was never met on any path checks nothing
	if rep.Error == "" {
		for _, cl := range c.Clauses {
			if cl.Kind == "assert" && clauseActive(cl, x.active) && !x.assertSeen[cl] {
				rep.Error = fmt.Sprintf("contract line %d: `assert before call %s#%d` matches no call site on any path of %s", cl.Line, cl.Callee, cl.Ord, funcFull(fn))
			}
		}
	}
	return rep
}

func (x *Exec) cover(st *State, fr *Frame, what string, in interface{}, desc string) {
	sub := ""
	k := siteKey{top: x.curTopName, sub: sub, kind: "cover:" + what, in: in}
	si, ok := x.sites[k]
	if !ok {
		si = &siteInfo{key: k}
		x.sites[k] = si
	}
	o := &Obligation{Kind: "cover", Fn: x.curTopName, Desc: desc, defs: st.defs, goal: "false", Cover: true}
	x.obls = append(x.obls, o)
	x.oblSite[o] = si
}

func (x *Exec) symbolicParam(st *State, fn *ssa.Function, p *ssa.Parameter) Val {
	T := p.Type()
	name := "p_" + sanitize(p.Name())
	if p.Name() == "_" || p.Name() == "" {
		for i, q := range fn.Params {
			if q == p {
				name = fmt.Sprintf("p_blank%d", i)
			}
		}
	}
	if sig, ok := T.Underlying().(*types.Signature); ok {
		n := name + "_isnil_" + sanitize(strings.ReplaceAll(funcKey(fn), ".", "_"))
		x.reg.declConst(n, "Bool")
		return &FuncParam{Name: p.Name(), Sig: sig, Nil: n}
	}
	// unique per function: prefix with function name to avoid clashes between functions
	name = name + "_" + sanitize(strings.ReplaceAll(funcKey(fn), ".", "_"))
	x.reg.declConst(name, x.sortOf(T))
	x.assumeTypeInv(st, name, T)
	return Term{name, T}
}

// checkLemmas turns lemma declarations into obligations.
func (x *Exec) checkLemmas(pc *PkgContracts, anyFn *ssa.Function) {
	for _, l := range pc.Lemmas {
		active := len(l.Tags) == 0
		for _, t := range l.Tags {
			p := t
			if i := strings.Index(t, "."); i >= 0 {
				p = t[:i]
			}
			if x.active[p] {
				active = true
			}
		}
		if !active {
			continue
		}
		st := &State{cells: map[*Cell]Val{}, heap: map[string]string{}, allocCtr: "alloc0"}
		x.reg.declConst("alloc0", "Int")
		env := x.newEnv(st, nil, nil)
		env.fn = anyFn
		x.curTopName = pc.Pkg[strings.LastIndex(pc.Pkg, "/")+1:] + ".lemma:" + l.Name
		x.curTop = nil
		func() {
			defer func() {
				if r := recover(); r != nil {
					if u, ok := r.(unsupported); ok {
						x.lemmaErrors = append(x.lemmaErrors, l.Name+": "+u.msg)
						return
					}
					panic(r)
				}
			}()
			g := env.evalBool(l.E)
			if l.Axiom {
				x.reg.axioms = appendUniq(x.reg.axioms, "(assert "+g+")")
				x.trusted["axiom "+l.Name+": "+l.Src] = true
				return
			}
			cl := &Clause{Kind: "lemma", Tags: l.Tags, Src: l.Src}
			x.oblige(st, nil, "lemma", strings.Join(l.Tags, ","), cl, 0, g, l.Src)
		}()
	}
}
