package main

import (
	"encoding/json"
	"flag"
	"fmt"
	"go/types"
	"os"
	"path/filepath"
	"sort"
	"strings"
	"time"

	"golang.org/x/tools/go/packages"
	"golang.org/x/tools/go/ssa"
	"golang.org/x/tools/go/ssa/ssautil"
)

type PropCfg struct {
	Title     string   `json:"title"`
	Packages  []string `json:"packages"`
	Functions []string `json:"functions"`
	Uses      []string `json:"uses"`
	Level     string   `json:"level"`
	Notes     []string `json:"assumptions"`
	Bounded   []string `json:"bounded"`
	SMTLemmas []struct {
		Name     string `json:"name"`
		File     string `json:"file"`
		What     string `json:"what"`
		Quick    string `json:"bound_quick"`
		Thorough string `json:"bound_thorough"`
		Secs     int    `json:"secs"`
	} `json:"smt_lemmas"`
}

type KnownFinding struct {
	Property   string `json:"property"`
	Obligation string `json:"obligation"`
	What       string `json:"what"`
	Input      string `json:"input,omitempty"`
}

type KnownFile struct {
	Findings []KnownFinding `json:"findings"`
	Fixed    []string       `json:"fixed"`
}

func main() {
	repo := flag.String("repo", "/repo", "repository root")
	verif := flag.String("verif", "/verif", "verif root")
	prop := flag.String("prop", "", "property id")
	tier := flag.String("tier", "quick", "quick|thorough")
	only := flag.String("func", "", "verify only this function (debug)")
	keep := flag.Bool("keep", false, "keep all query files")
	verbose := flag.Bool("v", false, "verbose")
	warm := flag.Bool("warm", false, "load all packages once to warm the build cache")
	dump := flag.Bool("dump", false, "print obligations")
	flag.Parse()
	t0 := time.Now()
	seed := 0
	fmt.Sscan(os.Getenv("VERIF_SEED"), &seed)

	var props map[string]*PropCfg
	mustJSON(filepath.Join(*verif, "props.json"), &props)
	if *warm {
		seen := map[string]bool{}
		var all []string
		for _, p := range props {
			for _, pk := range p.Packages {
				if !seen[pk] {
					seen[pk] = true
					all = append(all, pk)
				}
			}
		}
		cfg := &packages.Config{Mode: packages.NeedName | packages.NeedTypes | packages.NeedSyntax | packages.NeedTypesInfo | packages.NeedImports, Dir: *repo, BuildFlags: []string{"-tags=verif"},
			Env: append(os.Environ(), "GOFLAGS=-mod=mod", "GOPROXY=off", "GOSUMDB=off", "GOTOOLCHAIN=local")}
		_, err := packages.Load(cfg, all...)
		if err != nil {
			fatal("warm: %v", err)
		}
		return
	}
	pc, ok := props[*prop]
	if !ok {
		fatal("unknown property %q", *prop)
	}
	var known KnownFile
	if b, err := os.ReadFile(filepath.Join(*verif, "known_findings.json")); err == nil {
		if err := json.Unmarshal(b, &known); err != nil {
			fatal("known_findings.json: %v", err)
		}
	}

	cfg := &packages.Config{
		Mode:       packages.NeedName | packages.NeedFiles | packages.NeedCompiledGoFiles | packages.NeedImports | packages.NeedTypes | packages.NeedSyntax | packages.NeedTypesInfo | packages.NeedTypesSizes,
		Dir:        *repo,
		BuildFlags: []string{"-tags=verif"},
		Env:        append(os.Environ(), "GOFLAGS=-mod=mod", "GOPROXY=off", "GOSUMDB=off", "GOTOOLCHAIN=local"),
	}
	pkgs, err := packages.Load(cfg, pc.Packages...)
	if err != nil {
		fatal("load: %v", err)
	}
	loadErr := ""
	for _, p := range pkgs {
		for _, e := range p.Errors {
			loadErr += e.Error() + "\n"
		}
	}
	tLoad := time.Since(t0).Seconds()
	evPath := filepath.Join(*verif, "evidence", *prop+".json")
	outDir := filepath.Join(*verif, "replay_out", *prop)
	os.RemoveAll(outDir)
	os.MkdirAll(outDir, 0o755)
	os.MkdirAll(filepath.Dir(evPath), 0o755)
	if loadErr != "" {
		// the tree does not compile: nothing can be verified; report as violation with reason
		rp := filepath.Join(outDir, "load_error.txt")
		os.WriteFile(rp, []byte("packages failed to load/type-check:\n"+loadErr), 0o644)
		writeEvidence(evPath, *prop, *tier, seed, pc, nil, nil, nil, time.Since(t0).Seconds(), 1, map[string]interface{}{"load_error": loadErr})
		fmt.Printf("VIOLATION property=%s replay=%s no-failing-input-found\n", *prop, rp)
		os.Exit(1)
	}
	prog, spkgs := ssautil.Packages(pkgs, ssa.NaiveForm|ssa.InstantiateGenerics)
	prog.Build()
	x := newExec(prog, pkgs[0].Fset)
	x.prop = *prop
	x.active[*prop] = true
	for _, u := range pc.Uses {
		x.active[u] = true
	}
	var contractFiles []string
	for i, p := range pkgs {
		if spkgs[i] == nil {
			continue
		}
		dir := ""
		if len(p.GoFiles) > 0 {
			dir = filepath.Dir(p.GoFiles[0])
		}
		c, err := loadContracts(dir, p.PkgPath)
		if err != nil {
			fatal("contracts: %v", err)
		}
		x.contracts[p.PkgPath] = c
		if c.File != "" {
			contractFiles = append(contractFiles, strings.TrimPrefix(c.File, *repo+"/"))
		}
		for _, g := range c.Ghosts {
			x.ghosts[g.Name] = g
		}
		for _, hv := range c.HeapViews {
			if x.heapViews == nil {
				x.heapViews = map[string]*heapViewInfo{}
			}
			x.heapViews[hv.Recv] = &heapViewInfo{e: hv.E, pkg: spkgs[i]}
			// pre-register the ghost multiset array of this heap type (needed by static mod-sets)
			if obj := p.Types.Scope().Lookup(strings.TrimPrefix(hv.Recv, "*")); obj != nil {
				var st types.Type
				switch u := obj.Type().Underlying().(type) {
				case *types.Slice:
					st = u
				case *types.Struct:
					if se, ok := hv.E.(*SelE); ok {
						for fi := 0; fi < u.NumFields(); fi++ {
							if u.Field(fi).Name() == se.Name {
								st = u.Field(fi).Type()
							}
						}
					}
				}
				if st != nil {
					if sl, ok := st.Underlying().(*types.Slice); ok {
						x.hmName(sl.Elem())
					}
				}
			}
		}
		for _, u := range c.UFuns {
			x.ufuns[u.Name] = u
		}
		for _, sf := range c.SumFields {
			if x.sumFields == nil {
				x.sumFields = map[string][]string{}
			}
			parts := strings.SplitN(sf, ".", 2)
			if len(parts) == 2 {
				x.sumFields[parts[0]] = append(x.sumFields[parts[0]], parts[1])
			}
		}
	}
	// index functions
	funcs := map[string]*ssa.Function{}
	for fn := range ssautil.AllFunctions(prog) {
		if fn.Pkg == nil && fn.Origin() == nil && fn.Parent() == nil {
			continue
		}
		funcs[funcFull(fn)] = fn
	}
	var reports []FuncReport
	// vacuity guard: a contract block whose key matches no function (and no interface method) of its
	// package would be ignored silently; report it instead
	for _, miss := range x.unmatchedContracts(pkgs, funcs) {
		reports = append(reports, FuncReport{Name: miss, Error: "this contract block matches no function or interface method of the package (wrong key, or the function was renamed or removed?)"})
	}
	var anyFn *ssa.Function
	for _, name := range pc.Functions {
		if *only != "" && name != *only {
			continue
		}
		fn, ok := funcs[name]
		if !ok || fn.Blocks == nil {
			reports = append(reports, FuncReport{Name: name, Error: "function not found in the current tree (renamed or removed?)"})
			continue
		}
		anyFn = fn
		c := x.contractFor(fn)
		rep := x.verifyFunction(fn, c)
		reports = append(reports, rep)
		if *verbose {
			fmt.Fprintf(os.Stderr, "%-50s paths=%d obligations=%d %s\n", rep.Name, rep.Paths, rep.Obls, rep.Error)
		}
	}
	if anyFn != nil && *only == "" {
		for _, p := range pkgs {
			if c := x.contracts[p.PkgPath]; c != nil {
				x.checkLemmas(c, anyFn)
			}
		}
	}
	for _, l := range pc.SMTLemmas {
		if *only != "" {
			continue
		}
		b, err := os.ReadFile(filepath.Join(*verif, l.File))
		if err != nil {
			fatal("smt lemma %s: %v", l.Name, err)
		}
		bound := l.Quick
		if *tier == "thorough" && l.Thorough != "" {
			bound = l.Thorough
		}
		secs := l.Secs
		if secs == 0 {
			secs = 60
		}
		if *tier == "thorough" {
			secs *= 10
		}
		o := &Obligation{Name: "smt-lemma/" + l.Name, Kind: "smt-lemma", Tag: l.Name, Fn: "smt-lemma", Desc: l.What + " (bound " + bound + ")", Raw: strings.ReplaceAll(string(b), "BOUND", bound), MaxSec: secs, goal: "raw"}
		x.obls = append(x.obls, o)
		x.oblSite[o] = &siteInfo{name: o.Name}
	}
	tGen := time.Since(t0).Seconds() - tLoad
	x.finalizeNames()
	x.knownObl = map[string]bool{}
	for _, k := range known.Findings {
		if k.Property == *prop {
			x.knownObl[k.Obligation] = true
		}
	}
	scfg := solveCfg{dir: filepath.Join(outDir, "smt"), fastSecs: 3, fullSecs: 30, jobs: 16, keepFiles: *keep}
	if *tier == "thorough" {
		scfg.fullSecs = 60
		scfg.confirm = true
	}
	x.solveAll(scfg)
	vacuous := map[string]int{}
	if os.Getenv("VERIF_NO_VACUITY") == "" && *only == "" {
		vacuous = x.vacuousSites(scfg, x.reg.prelude())
	}
	tSolve := time.Since(t0).Seconds() - tLoad - tGen

	// group by site
	type siteRes struct {
		Name    string
		Kind    string
		Tag     string
		Desc    string
		Pos     string
		Queries int
		Failed  []*Obligation
		Secs    float64
		Solvers map[string]int
		Cover   bool
	}
	sites := map[string]*siteRes{}
	var order []string
	for _, o := range x.obls {
		s, ok := sites[o.Name]
		if !ok {
			s = &siteRes{Name: o.Name, Kind: o.Kind, Tag: o.Tag, Desc: o.Desc, Pos: o.Pos, Solvers: map[string]int{}, Cover: o.Cover}
			sites[o.Name] = s
			order = append(order, o.Name)
		}
		s.Queries++
		s.Secs += o.Secs
		s.Solvers[o.Solver]++
		good := o.Result == "unsat"
		if o.Cover {
			good = o.Result != "unsat" // sat or unknown: not vacuous
		}
		if !good {
			s.Failed = append(s.Failed, o)
		}
	}
	sort.Strings(order)
	violations := 0
	replays := 0
	replayed := map[string]string{}
	replayedOK := map[string]bool{}
	knownHit := 0
	discharged := 0
	var oblList []map[string]interface{}
	var printed []string
	for _, n := range order {
		s := sites[n]
		status := "discharged"
		if len(s.Failed) > 0 {
			status = "FAILED"
			var kf *KnownFinding
			for i := range known.Findings {
				k := &known.Findings[i]
				if k.Property == *prop && k.Obligation == s.Name {
					kf = k
				}
			}
			if kf != nil {
				status = "known-finding"
				knownHit++
				printed = append(printed, fmt.Sprintf("KNOWN-FINDING: property=%s %s: %s", *prop, s.Name, kf.What))
			} else {
				violations++
				rp := filepath.Join(outDir, sanitize(s.Name)+".txt")
				o := s.Failed[0]
				for _, f := range s.Failed {
					if f.Result == "sat" { // prefer a path query for which the solver produced a counterexample
						o = f
						break
					}
				}
				model := ""
				if o.Result == "sat" {
					model = x.modelFor(o, scfg)
				}
				writeReplay(rp, *prop, s.Name, s.Desc, s.Pos, o, model, len(s.Failed), s.Queries)
				suffix := " no-failing-input-found"
				fam := ""
				if f := x.replayFamilyFor(*verif, strings.SplitN(o.Fn, "$", 2)[0]); f != nil {
					fam = f.Template
				}
				switch {
				case os.Getenv("VERIF_NO_REPLAY") != "":
					appendFile(rp, "\n--- replay ---\nreplay switched off (VERIF_NO_REPLAY)\n")
				case fam != "" && replayed[fam] != "":
					// one run of a harness explores the real function against all its oracles: reuse it
					appendFile(rp, "\n--- replay ---\nsame harness as "+replayed[fam]+" (one run covers every oracle of this function family)\n")
					if replayedOK[fam] {
						suffix = ""
					}
				case replays >= 3:
					appendFile(rp, "\n--- replay ---\nreplay budget of this run used up (3 harness runs)\n")
				default:
					replays++
					ok := x.tryReplay(*repo, *verif, *prop, s.Name, o, funcs[strings.SplitN(o.Fn, "$", 2)[0]], scfg, rp)
					if fam != "" {
						replayed[fam], replayedOK[fam] = rp, ok
					}
					if ok {
						suffix = ""
					}
				}
				printed = append(printed, fmt.Sprintf("VIOLATION property=%s replay=%s%s", *prop, rp, suffix))
			}
		} else {
			discharged++
		}
		m := map[string]interface{}{"name": s.Name, "kind": s.Kind, "status": status, "queries": s.Queries, "solver_s": round3(s.Secs), "solvers": s.Solvers, "what": s.Desc, "at": s.Pos}
		if s.Tag != "" {
			m["tag"] = s.Tag
		}
		oblList = append(oblList, m)
	}
	// an obligation that holds on every path only because no path reaches it proves nothing
	var vacNames []string
	for n := range vacuous {
		vacNames = append(vacNames, n)
	}
	sort.Strings(vacNames)
	for _, n := range vacNames {
		kfHit := false
		for i := range known.Findings {
			if known.Findings[i].Property == *prop && known.Findings[i].Obligation == n+"/vacuous" {
				printed = append(printed, fmt.Sprintf("KNOWN-FINDING: property=%s %s/vacuous: %s", *prop, n, known.Findings[i].What))
				kfHit = true
			}
		}
		if kfHit {
			continue
		}
		violations++
		rp := filepath.Join(outDir, sanitize(n+"/vacuous")+".txt")
		os.WriteFile(rp, []byte(fmt.Sprintf("obligation: %s/vacuous\nall %d path queries of this obligation were discharged, but the hypotheses of every one of them are contradictory: no execution reaches the obligation, so it proves nothing (contradictory contract, or a defect of the generator)\n", n, vacuous[n])), 0o644)
		printed = append(printed, fmt.Sprintf("VIOLATION property=%s replay=%s no-failing-input-found", *prop, rp))
	}
	// function-level failures (outside subset, missing) are violations: the proof does not go through
	for _, r := range reports {
		if r.Error != "" {
			name := r.Name + "/engine"
			var kf *KnownFinding
			for i := range known.Findings {
				if known.Findings[i].Property == *prop && known.Findings[i].Obligation == name {
					kf = &known.Findings[i]
				}
			}
			if kf != nil {
				printed = append(printed, fmt.Sprintf("KNOWN-FINDING: property=%s %s: %s", *prop, name, kf.What))
				continue
			}
			violations++
			rp := filepath.Join(outDir, sanitize(name)+".txt")
			os.WriteFile(rp, []byte("obligation: "+name+"\nthe contract of this function could not be checked against the current source:\n"+r.Error+"\n"), 0o644)
			suffix := " no-failing-input-found"
			base := strings.SplitN(r.Name, "$", 2)[0]
			if f := x.replayFamilyFor(*verif, base); f != nil && os.Getenv("VERIF_NO_REPLAY") == "" {
				if replayed[f.Template] != "" {
					appendFile(rp, "\n--- replay ---\nsame harness as "+replayed[f.Template]+"\n")
					if replayedOK[f.Template] {
						suffix = ""
					}
				} else if replays < 3 {
					replays++
					ok := x.tryReplay(*repo, *verif, *prop, name, &Obligation{Name: name, Fn: r.Name, Kind: "engine"}, funcs[base], scfg, rp)
					replayed[f.Template], replayedOK[f.Template] = rp, ok
					if ok {
						suffix = ""
					}
				}
			}
			printed = append(printed, fmt.Sprintf("VIOLATION property=%s replay=%s%s", *prop, rp, suffix))
		}
		if r.Error == "" && r.Obls == 0 {
			violations++
			rp := filepath.Join(outDir, sanitize(r.Name+"/vacuous")+".txt")
			os.WriteFile(rp, []byte("obligation: "+r.Name+"/vacuous\nno obligations were generated for this function (vacuity guard)\n"), 0o644)
			printed = append(printed, fmt.Sprintf("VIOLATION property=%s replay=%s no-failing-input-found", *prop, rp))
		}
	}
	for _, e := range x.lemmaErrors {
		violations++
		rp := filepath.Join(outDir, "lemma_error.txt")
		os.WriteFile(rp, []byte("lemma could not be evaluated: "+e+"\n"), 0o644)
		printed = append(printed, fmt.Sprintf("VIOLATION property=%s replay=%s no-failing-input-found", *prop, rp))
	}
	if os.Getenv("GOVC_TRACE") != "" {
		for _, o := range x.obls {
			fmt.Fprintf(os.Stderr, "query %6.2fs %-8s %-40s %s %s\n", o.Secs, o.Result, o.Solver, o.Name, filepath.Base(o.File))
		}
	}
	if *dump || *verbose {
		for _, m := range oblList {
			fmt.Fprintf(os.Stderr, "  %-14s %-90s q=%v t=%vs  %v\n", m["status"], m["name"], m["queries"], m["solver_s"], m["what"])
		}
	}
	extra := map[string]interface{}{
		"load_s": round3(tLoad), "vcgen_s": round3(tGen), "solve_wall_s": round3(tSolve),
		"contract_files": contractFiles, "known_findings_hit": knownHit, "paths": x.paths,
		"vacuity_guard": fmt.Sprintf("every fully discharged ensures / assert-before-call obligation was re-examined without its goal: %d of them are reachable on no path", len(vacuous)),
	}
	writeEvidence(evPath, *prop, *tier, seed, pc, x, reports, oblList, time.Since(t0).Seconds(), violations, extra)
	for _, l := range printed {
		fmt.Println(l)
	}
	// obligations listed as known findings are reported separately (known=) and are not part of the proof record:
	// the counts printed here are the ones written to the evidence file
	fmt.Printf("property=%s tier=%s functions=%d obligations=%d discharged=%d known=%d violations=%d wall=%.1fs\n", *prop, *tier, len(reports), len(order)-knownHit, discharged, knownHit, violations, time.Since(t0).Seconds())
	if violations > 0 {
		os.Exit(1)
	}
}

func round3(f float64) float64 { return float64(int(f*1000+0.5)) / 1000 }

func mustJSON(path string, v interface{}) {
	b, err := os.ReadFile(path)
	if err != nil {
		fatal("%v", err)
	}
	if err := json.Unmarshal(b, v); err != nil {
		fatal("%s: %v", path, err)
	}
}

func fatal(f string, a ...interface{}) {
	fmt.Fprintf(os.Stderr, "govc: "+f+"\n", a...)
	os.Exit(2)
}

func writeReplay(path, prop, name, desc, pos string, o *Obligation, model string, failed, total int) {
	var b strings.Builder
	fmt.Fprintf(&b, "property: %s\nobligation: %s\nwhat: %s\nat: %s\nsolver result: %s (%s, %.2fs); %d of %d path queries of this obligation not discharged\n", prop, name, desc, pos, o.Result, o.Solver, o.Secs, failed, total)
	fmt.Fprintf(&b, "query file: %s\n", o.File)
	if model != "" {
		fmt.Fprintf(&b, "\n--- solver model (counterexample to the obligation) ---\n%s\n", model)
	} else {
		fmt.Fprintf(&b, "\n--- solver output ---\n%s\n", o.Model)
	}
	os.WriteFile(path, []byte(b.String()), 0o644)
}

func writeEvidence(path, prop, tier string, seed int, pc *PropCfg, x *Exec, reports []FuncReport, obls []map[string]interface{}, wall float64, violations int, extra map[string]interface{}) {
	discharged := 0
	for _, o := range obls {
		if o["status"] == "discharged" {
			discharged++
		}
	}
	var fns []map[string]interface{}
	for _, r := range reports {
		m := map[string]interface{}{"function": r.Name, "paths": r.Paths, "path_queries": r.Obls, "has_contract": r.Contract}
		if r.Error != "" {
			m["error"] = r.Error
		}
		fns = append(fns, m)
	}
	trusted, notes := []string{}, []string{}
	if x != nil {
		for t := range x.trusted {
			trusted = append(trusted, t)
		}
		for n := range x.notes {
			notes = append(notes, n)
		}
	}
	trusted = append(trusted, "go/packages + go/ssa (NaiveForm) front end and this VC generator", "SMT solvers z3 4.8.12 / z3 5.1.0 / cvc5 1.0.x",
		"Go int is 64-bit; integer arithmetic is mathematical where the generated no-overflow obligations pass", "float64 arithmetic treated as real arithmetic unless an obligation says bit-precise")
	sort.Strings(trusted)
	sort.Strings(notes)
	var samples []interface{}
	for i, o := range obls {
		if o["status"] == "known-finding" {
			continue
		}
		if i < 6 || o["status"] != "discharged" {
			samples = append(samples, o)
		}
	}
	known := 0
	for _, o := range obls {
		if o["status"] == "known-finding" {
			known++
		}
	}
	// the proof record lists the obligations of the proof; obligations that fail as listed known findings are
	// kept apart (they are not claimed as proved)
	var proofObls, knownObls []map[string]interface{}
	for _, o := range obls {
		if o["status"] == "known-finding" {
			knownObls = append(knownObls, o)
		} else {
			proofObls = append(proofObls, o)
		}
	}
	cov := map[string]interface{}{
		// obligations that fail because of a listed known finding are reported separately: they are
		// not claimed as proved and not counted among the obligations of this proof
		"obligations": len(obls) - known, "discharged": discharged, "obligations_failing_as_known_findings": known,
		"checker_cmd":   fmt.Sprintf("/verif/check %s %s", prop, tier),
		"trusted_base":  trusted,
		"functions":     fns,
		"obligation_list": proofObls,
		"known_finding_obligations": knownObls,
		"samples":       samples,
		"explanation":   "every obligation is one SMT validity query per symbolic path through the real function (go/ssa of /repo's working tree); discharged = all path queries unsat",
		"bounded":       pc.Bounded,
	}
	for k, v := range extra {
		cov[k] = v
	}
	ev := map[string]interface{}{
		"property_id": prop, "tier": tier, "seed": seed, "level": "proof",
		"coverage": cov, "assumptions": append(notes, pc.Notes...), "wall_s": round3(wall), "violations": violations,
	}
	b, _ := json.MarshalIndent(ev, "", " ")
	os.WriteFile(path, b, 0o644)
}

var _ = types.Typ
