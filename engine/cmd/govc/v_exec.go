package main

import (
	"fmt"
	"go/token"
	"go/types"
	"sort"
	"strings"

	"golang.org/x/tools/go/ssa"
)

type siteKey struct {
	top  string
	sub  string
	kind string
	tag  string
	in   interface{} // ssa.Instruction or *Clause
	idx  int         // sub-index inside the instruction / clause
}

type siteInfo struct {
	trivial bool // reached on some path on which the obligation held by construction (no query generated)
	key   siteKey
	order [4]int // sort key: depth-independent static order
	name  string
}

type Exec struct {
	prog      *ssa.Program
	fset      *token.FileSet
	reg       *Registry
	contracts map[string]*PkgContracts // by package path
	active    map[string]bool
	prop      string

	nameCtr int
	cellCtr int
	obls    []*Obligation
	sites   map[siteKey]*siteInfo
	oblSite map[*Obligation]*siteInfo
	paths   int
	maxPath int

	curTop     *ssa.Function
	curTopName string
	safetyOn   bool
	notes      map[string]bool
	trusted    map[string]bool
	globals    map[*ssa.Global]*Cell
	loopCache  map[*ssa.Function][]*loopInfo
	modCache   map[*ssa.Function]*modSet
	inlineMax  int
	seqCtr     int
	ghostDone  map[string]bool
	assertSeen map[*Clause]bool
	trivialSites map[siteKey]bool
	knownObl   map[string]bool
	callOrds   map[*ssa.Function]map[ssa.Instruction]int
	ghosts     map[string]*Ghost
	ghostSig   map[string][]string
	bounded    int // >0: unroll loops without invariants this many times
	funcsSeen  map[string]bool
	lemmaErrors []string
	pure        int
	partialMode bool
	partialLoops bool
	ufuns       map[string]*Ghost
	retFrame    *Frame
	hmArrays    map[string]string
	heapViews   map[string]*heapViewInfo
	sumFields   map[string][]string
	pureEval    int
	tagIds      map[string]int
	arrTypes    map[string]types.Type
}

func newExec(prog *ssa.Program, fset *token.FileSet) *Exec {
	return &Exec{prog: prog, fset: fset, reg: newRegistry(), contracts: map[string]*PkgContracts{}, active: map[string]bool{},
		sites: map[siteKey]*siteInfo{}, trivialSites: map[siteKey]bool{}, oblSite: map[*Obligation]*siteInfo{}, notes: map[string]bool{}, trusted: map[string]bool{},
		globals: map[*ssa.Global]*Cell{}, loopCache: map[*ssa.Function][]*loopInfo{}, modCache: map[*ssa.Function]*modSet{},
		inlineMax: 6, maxPath: 200000, ghostDone: map[string]bool{}, ghosts: map[string]*Ghost{}, ghostSig: map[string][]string{}, funcsSeen: map[string]bool{}, ufuns: map[string]*Ghost{}}
}

func (x *Exec) fresh(prefix string) string {
	x.nameCtr++
	return fmt.Sprintf("%s_%d", prefix, x.nameCtr)
}

func (x *Exec) newCell(name string, T types.Type) *Cell {
	x.cellCtr++
	return &Cell{id: x.cellCtr, name: name, T: T}
}

func (x *Exec) note(s string) { x.notes[s] = true }

// declare a fresh constant of the sort of T (path-local)
func (x *Exec) declare(st *State, prefix string, sortS string) string {
	n := x.fresh(prefix)
	st.add("(declare-const " + n + " " + sortS + ")")
	return n
}

func (x *Exec) define(st *State, prefix, sortS, term string) string {
	if x.pure > 0 || x.pureEval > 0 || (len(term) < 24 && !strings.Contains(term, "(")) {
		return term
	}
	n := x.fresh(prefix)
	st.add("(define-fun " + n + " () " + sortS + " " + term + ")")
	return n
}

func (x *Exec) assume(st *State, cond string) {
	if cond == "true" || cond == "" || x.pure > 0 {
		return
	}
	if cond == "false" {
		st.dead = true
	}
	st.add("(assert " + cond + ")")
}

func (x *Exec) sortOf(T types.Type) string { return x.reg.sortOf(T) }

// ---------- heap arrays ----------

func (x *Exec) heapName(objT types.Type) (string, string) {
	s := x.sortOf(objT)
	id := sortId(s)
	if _, isStruct := objT.Underlying().(*types.Struct); !isStruct {
		id = sanitize(x.typeId(objT))
	}
	x.recordArrType("H_"+id, objT)
	return "H_" + id, "(Array Int " + s + ")"
}

func (x *Exec) recordArrType(name string, T types.Type) {
	if x.arrTypes == nil {
		x.arrTypes = map[string]types.Type{}
	}
	if _, ok := x.arrTypes[name]; !ok {
		x.arrTypes[name] = T
	}
}

// refBound: "every reference inside value v (of type T) that existed at function entry points to
// an object that existed at function entry" -- well-formedness of the initial heap.
func (x *Exec) refBound(v string, T types.Type, depth int) string {
	switch u := T.Underlying().(type) {
	case *types.Pointer, *types.Map:
		return and(app("<=", "0", v), app("<", v, "alloc0"), x.tagFact(v, T))
	case *types.Slice:
		return and(app("<=", "0", app("s_arr", v)), app("<", app("s_arr", v), "alloc0"), x.tagFact(app("s_arr", v), T))
	case *types.Struct:
		if depth > 1 {
			return "true"
		}
		si := x.structInfo(T)
		var parts []string
		for i, f := range si.fields {
			parts = append(parts, x.refBound(app(f, v), si.ftypes[i], depth+1))
		}
		_ = u
		return and(parts...)
	}
	return "true"
}

func (x *Exec) initialHeapAxioms(name, init string) {
	T, ok := x.arrTypes[name]
	if !ok {
		return
	}
	switch {
	case strings.HasPrefix(name, "H_"):
		if b := x.refBound("(select "+init+" r)", T, 0); b != "true" {
			x.reg.axioms = appendUniq(x.reg.axioms, "(assert (forall ((r Int)) (! "+b+" :pattern ((select "+init+" r)))))")
		}
	case strings.HasPrefix(name, "A_"):
		if b := x.refBound("(select (select "+init+" r) i)", T, 0); b != "true" {
			x.reg.axioms = appendUniq(x.reg.axioms, "(assert (forall ((r Int) (i Int)) (! "+b+" :pattern ((select (select "+init+" r) i)))))")
		}
	case strings.HasPrefix(name, "MV_"):
		mt := T.Underlying().(*types.Map)
		ks := x.sortOf(mt.Key())
		if b := x.refBound("(select (select "+init+" r) k)", mt.Elem(), 0); b != "true" {
			x.reg.axioms = appendUniq(x.reg.axioms, "(assert (forall ((r Int) (k "+ks+")) (! "+b+" :pattern ((select (select "+init+" r) k)))))")
		}
	}
}
// typeId names a Go type for heap partitioning: values of different Go types never alias, so
// backing arrays and maps are split by element / key / value type (not merely by SMT sort).
func (x *Exec) typeId(T types.Type) string {
	switch u := T.(type) {
	case *types.Named:
		if _, isStruct := u.Underlying().(*types.Struct); isStruct {
			return sortId(x.sortOf(T))
		}
		if _, isIface := u.Underlying().(*types.Interface); isIface {
			return "iface"
		}
		return x.typeId(u.Underlying())
	case *types.Alias:
		return x.typeId(types.Unalias(u))
	case *types.Pointer:
		return "p" + x.typeId(u.Elem())
	case *types.Slice:
		return "s" + x.typeId(u.Elem())
	case *types.Map:
		return "m" + x.typeId(u.Key()) + "_" + x.typeId(u.Elem())
	case *types.Basic:
		return u.Name()
	case *types.Interface:
		return "iface"
	case *types.Signature:
		return "func"
	case *types.Struct:
		return sortId(x.sortOf(T))
	}
	return sortId(x.sortOf(T))
}

func (x *Exec) arrName(elemT types.Type) (string, string) {
	s := x.sortOf(elemT)
	x.recordArrType("A_"+sanitize(x.typeId(elemT)), elemT)
	return "A_" + sanitize(x.typeId(elemT)), "(Array Int (Array Int " + s + "))"
}
func (x *Exec) mapNames(m *types.Map) (dom, val, ks, vs string) {
	ks, vs = x.sortOf(m.Key()), x.sortOf(m.Elem())
	id := sanitize(x.typeId(m.Key()) + "_" + x.typeId(m.Elem()))
	x.recordArrType("MV_"+id, m)
	return "MD_" + id, "MV_" + id, ks, vs
}

func (x *Exec) getArr(st *State, name, sortS string) string {
	if t, ok := st.heap[name]; ok {
		return t
	}
	init := name + "_0"
	if _, seen := x.reg.consts[init]; !seen {
		x.reg.declConst(init, sortS)
		// the nil map (reference 0) is empty and has no entries
		if strings.HasPrefix(name, "MD_") {
			ks := strings.TrimSuffix(strings.TrimPrefix(sortS, "(Array Int (Array "), " Bool))")
			x.reg.axioms = appendUniq(x.reg.axioms, "(assert (= (select "+init+" 0) ((as const (Array "+ks+" Bool)) false)))")
		}
		x.initialHeapAxioms(name, init)
		if strings.HasPrefix(name, "MD_") {
			// len(m) == 0 exactly when m has no keys (initial heap)
			x.getArr(st, "MC", "(Array Int Int)")
			ks := strings.TrimSuffix(strings.TrimPrefix(sortS, "(Array Int (Array "), " Bool))")
			x.reg.axioms = appendUniq(x.reg.axioms, "(assert (forall ((r Int)) (! (=> (= (select MC_0 r) 0) (= (select "+init+" r) ((as const (Array "+ks+" Bool)) false))) :pattern ((select "+init+" r)))))")
			x.reg.axioms = appendUniq(x.reg.axioms, "(assert (forall ((r Int) (k "+ks+")) (! (=> (select (select "+init+" r) k) (>= (select MC_0 r) 1)) :pattern ((select (select "+init+" r) k)))))")
		}
		if name == "MC" {
			x.reg.axioms = appendUniq(x.reg.axioms, "(assert (= (select MC_0 0) 0))")
			// cardinalities are never negative
			x.reg.axioms = appendUniq(x.reg.axioms, "(assert (forall ((r Int)) (! (>= (select MC_0 r) 0) :pattern ((select MC_0 r)))))")
		}
	}
	st.heap[name] = init
	return init
}

func (x *Exec) arrSort(name string) string {
	return x.reg.consts[name+"_0"]
}

func (x *Exec) setArr(st *State, name, sortS, term string) {
	x.getArr(st, name, sortS)
	st.heap[name] = x.define(st, name, sortS, term)
}

func (x *Exec) allocRef(st *State) string {
	r := st.allocCtr
	st.allocCtr = x.define(st, "alloc", "Int", app("+", r, "1"))
	return r
}

// Objects of different Go types are different objects: every reference carries the tag of its
// type (rtype), so two references of different types are provably distinct.
func (x *Exec) typeTag(T types.Type) string {
	id := ""
	switch u := T.Underlying().(type) {
	case *types.Pointer:
		id = "p" + x.typeId(u.Elem())
	case *types.Map:
		id = x.typeId(T)
	case *types.Slice:
		id = "arr" + x.typeId(u.Elem())
	case *types.Array:
		id = "arr" + x.typeId(u.Elem())
	default:
		id = x.typeId(T)
	}
	if x.tagIds == nil {
		x.tagIds = map[string]int{}
	}
	n, ok := x.tagIds[id]
	if !ok {
		n = len(x.tagIds) + 1
		x.tagIds[id] = n
	}
	return fmt.Sprint(n)
}

func (x *Exec) tagFact(ref string, T types.Type) string {
	x.reg.declFun("rtype", "(Int) Int")
	return implies(not(eq(ref, "0")), eq(app("rtype", ref), x.typeTag(T)))
}

// allocRefT allocates a fresh object of (reference) type T.
func (x *Exec) allocRefT(st *State, T types.Type) string {
	r := x.allocRef(st)
	x.reg.declFun("rtype", "(Int) Int")
	x.assume(st, eq(app("rtype", r), x.typeTag(T)))
	return r
}

// ---------- places ----------

func (x *Exec) fieldType(T types.Type, i int) types.Type {
	return T.Underlying().(*types.Struct).Field(i).Type()
}

func (x *Exec) structInfo(T types.Type) *structInfo {
	st, ok := T.Underlying().(*types.Struct)
	if !ok {
		bail("not a struct: %s", T)
	}
	x.sortOf(T)
	return x.reg.structSort(unalias(T), st)
}

func unalias(T types.Type) types.Type { return types.Unalias(T) }

// project a struct term along a path
func (x *Exec) project(term string, T types.Type, path []int) (string, types.Type) {
	for _, i := range path {
		si := x.structInfo(T)
		term = app(si.fields[i], term)
		T = si.ftypes[i]
	}
	return term, T
}

// update: returns root term with the content at path replaced by v
func (x *Exec) updatePath(root string, T types.Type, path []int, v string) string {
	if len(path) == 0 {
		return v
	}
	si := x.structInfo(T)
	parts := []string{"mk_" + si.sort}
	for i := range si.fields {
		if i == path[0] {
			parts = append(parts, x.updatePath(app(si.fields[i], root), si.ftypes[i], path[1:], v))
		} else {
			parts = append(parts, app(si.fields[i], root))
		}
	}
	return "(" + strings.Join(parts, " ") + ")"
}

func (x *Exec) asPlace(v Val, ptrT types.Type) *Place {
	switch p := v.(type) {
	case *Place:
		return p
	case Term:
		pt, ok := p.T.Underlying().(*types.Pointer)
		if !ok {
			if ptrT != nil {
				pt, ok = ptrT.Underlying().(*types.Pointer)
			}
			if !ok {
				bail("asPlace: not a pointer: %s", p.T)
			}
		}
		return &Place{Kind: pkHeap, Ref: p.S, Base: pt.Elem(), T: pt.Elem()}
	}
	bail("asPlace: unexpected %T", v)
	return nil
}

// placeTerm converts a pointer value into an Int term when possible.
func (x *Exec) placeTerm(p *Place) (string, bool) {
	if p.Kind == pkHeap && len(p.Path) == 0 {
		return p.Ref, true
	}
	return "", false
}

func (x *Exec) load(st *State, fr *Frame, p *Place, in ssa.Instruction) Val {
	switch p.Kind {
	case pkCell:
		v, ok := st.cells[p.Cell]
		if !ok {
			bail("load of unknown cell %s", p.Cell.name)
		}
		if len(p.Path) == 0 {
			return v
		}
		t, ok := v.(Term)
		if !ok {
			bail("field path into non-term cell %s", p.Cell.name)
		}
		s, T := x.project(t.S, p.Base, p.Path)
		return x.typed(st, s, T)
	case pkHeap:
		x.nilCheck(st, fr, p.Ref, in)
		name, srt := x.heapName(p.Base)
		s := app("select", x.getArr(st, name, srt), p.Ref)
		s, T := x.project(s, p.Base, p.Path)
		return x.typed(st, x.define(st, "ld", x.sortOf(T), s), T)
	case pkElem:
		name, srt := x.arrName(p.Base)
		s := app("select", app("select", x.getArr(st, name, srt), p.Ref), p.Idx)
		if v, ok := foldElemRead(st, x.getArr(st, name, srt), p.Ref, p.Idx); ok {
			s = v // element of a local array read back at a constant index: the value last stored there
		}
		s, T := x.project(s, p.Base, p.Path)
		return x.typed(st, x.define(st, "ld", x.sortOf(T), s), T)
	}
	return nil
}

// foldElemRead resolves (select (select ARR ref) idx) for a numeral idx when ARR is defined, by a chain
// of define-funs, as stores into row `ref` at numeral indices (the shape local arrays take): it returns
// the value last stored at idx. Purely syntactic and only applied when every step is unambiguous.
func foldElemRead(st *State, arr, ref, idx string) (string, bool) {
	if !isNumeral(idx) {
		return "", false
	}
	lookup := func(name string) string {
		pre := "(define-fun " + name + " () "
		for d := st.defs; d != nil; d = d.prev {
			if strings.HasPrefix(d.line, pre) {
				rest := d.line[len(pre):]
				// skip the sort (balanced)
				depth, k := 0, 0
				for k = 0; k < len(rest); k++ {
					if rest[k] == '(' {
						depth++
					} else if rest[k] == ')' {
						depth--
					} else if rest[k] == ' ' && depth == 0 {
						break
					}
				}
				return strings.TrimSuffix(strings.TrimSpace(rest[k:]), ")")
			}
		}
		return ""
	}
	for step := 0; step < 8; step++ {
		def := lookup(arr)
		args, ok := sexprArgs(def)
		if def == "" || !ok || len(args) != 4 || args[0] != "store" || args[2] != ref {
			return "", false
		}
		row := args[3]
		for k := 0; k < 8; k++ {
			ra, ok := sexprArgs(row)
			if !ok || len(ra) == 0 {
				return "", false
			}
			if ra[0] == "store" && len(ra) == 4 && isNumeral(ra[2]) {
				if ra[2] == idx {
					return ra[3], true
				}
				row = ra[1]
				continue
			}
			if ra[0] == "select" && len(ra) == 3 && ra[2] == ref {
				arr = ra[1] // the row as it was in an earlier version of the array
				break
			}
			return "", false
		}
	}
	return "", false
}

// typed wraps a loaded term and adds the type invariants of its Go type as assumptions.
func (x *Exec) typed(st *State, s string, T types.Type) Val {
	x.assumeTypeInv(st, s, T)
	return Term{s, T}
}

func (x *Exec) assumeTypeInv(st *State, s string, T types.Type) {
	if x.pureEval > 0 {
		return // only branch conditions belong to the path conditions of a pure evaluation
	}
	switch u := T.Underlying().(type) {
	case *types.Basic:
		if u.Info()&types.IsInteger != 0 {
			if strings.HasPrefix(s, "(") || !isNumeral(s) {
				x.assume(st, inRange(s, T))
			}
		} else if u.Info()&types.IsString != 0 {
			if !isNumeral(s) {
				x.assume(st, app("<=", "0", s))
			}
		}
	case *types.Slice:
		x.assume(st, and(app("<=", "0", app("s_off", s)), app("<=", "0", app("s_len", s)), app("<=", app("s_len", s), app("s_cap", s)),
			app("<=", "0", app("s_arr", s)), app("<", app("s_arr", s), st.allocCtr),
			app("<=", app("+", app("s_off", s), app("s_cap", s)), "281474976710656"), x.tagFact(app("s_arr", s), T), // 2^48: the address space
			implies(eq(app("s_arr", s), "0"), eq(app("s_cap", s), "0"))))
	case *types.Pointer, *types.Map:
		x.assume(st, and(app("<=", "0", s), app("<", s, st.allocCtr), x.tagFact(s, T)))
	case *types.Struct:
		// value structs: invariants of the fields (one level of nesting is enough for the code base)
		si := x.structInfo(T)
		for i, f := range si.fields {
			switch si.ftypes[i].Underlying().(type) {
			case *types.Basic, *types.Slice, *types.Pointer, *types.Map:
				x.assumeTypeInv(st, app(f, s), si.ftypes[i])
			}
		}
	}
}

func isNumeral(s string) bool {
	if s == "" {
		return false
	}
	for _, c := range s {
		if c < '0' || c > '9' {
			return false
		}
	}
	return true
}

func (x *Exec) toTerm(st *State, v Val, T types.Type) Term {
	switch t := v.(type) {
	case Term:
		return t
	case *Place:
		if s, ok := x.placeTerm(t); ok {
			return Term{s, T}
		}
		bail("pointer to a local or interior location escapes into symbolic memory (%v)", t.Kind)
	case *Iface:
		return x.boxIface(st, t)
	case *FuncParam:
		x.note("function value stored symbolically: " + t.Name)
		n := x.declare(st, "fnval", "Int")
		x.assume(st, eq(eq(n, "0"), t.Nil))
		return Term{n, T}
	case *Closure, *StaticFn, *Noop:
		n := x.declare(st, "fnval", "Int")
		x.assume(st, not(eq(n, "0")))
		return Term{n, T}
	case nil:
		bail("toTerm(nil)")
	}
	bail("toTerm: unexpected %T", v)
	return Term{}
}

func (x *Exec) typeID(T types.Type) string {
	return x.reg.strLit("type:" + T.String())
}

func (x *Exec) boxIface(st *State, i *Iface) Term {
	x.reg.declFun("itype", "(Int) Int")
	b := x.declare(st, "box", "Int")
	x.assume(st, not(eq(b, "0")))
	x.assume(st, eq(app("itype", b), x.typeID(i.Dyn)))
	if t, ok := i.V.(Term); ok {
		fn := "unbox_" + sortId(x.sortOf(i.Dyn))
		x.reg.declFun(fn, "(Int) "+x.sortOf(i.Dyn))
		x.assume(st, eq(app(fn, b), t.S))
	} else if p, ok := i.V.(*Place); ok {
		if s, ok := x.placeTerm(p); ok {
			fn := "unbox_Int"
			x.reg.declFun(fn, "(Int) Int")
			x.assume(st, eq(app(fn, b), s))
		}
	}
	return Term{b, types.NewInterfaceType(nil, nil)}
}

func (x *Exec) store(st *State, fr *Frame, p *Place, v Val, in ssa.Instruction) {
	switch p.Kind {
	case pkCell:
		if len(p.Path) == 0 {
			st.cells[p.Cell] = v
			return
		}
		old, ok := st.cells[p.Cell].(Term)
		if !ok {
			bail("field store into non-term cell")
		}
		nv := x.toTerm(st, v, p.T)
		s := x.updatePath(old.S, p.Base, p.Path, nv.S)
		st.cells[p.Cell] = Term{x.define(st, "c_"+sanitize(p.Cell.name), x.sortOf(p.Base), s), p.Base}
	case pkHeap:
		x.nilCheck(st, fr, p.Ref, in)
		x.frameCheck(st, fr, p.Ref, in)
		name, srt := x.heapName(p.Base)
		arr := x.getArr(st, name, srt)
		nv := x.toTerm(st, v, p.T)
		obj := nv.S
		if len(p.Path) > 0 {
			obj = x.updatePath(app("select", arr, p.Ref), p.Base, p.Path, nv.S)
		}
		x.setArr(st, name, srt, app("store", arr, p.Ref, obj))
	case pkElem:
		x.frameCheck(st, fr, p.Ref, in)
		name, srt := x.arrName(p.Base)
		arr := x.getArr(st, name, srt)
		nv := x.toTerm(st, v, p.T)
		el := nv.S
		if len(p.Path) > 0 {
			el = x.updatePath(app("select", app("select", arr, p.Ref), p.Idx), p.Base, p.Path, nv.S)
		}
		x.setArr(st, name, srt, app("store", arr, p.Ref, app("store", app("select", arr, p.Ref), p.Idx, el)))
	}
}

// ---------- obligations ----------

func (x *Exec) oblige(st *State, fr *Frame, kind, tag string, in interface{}, idx int, goal, desc string) {
	if x.pureEval > 0 {
		return // evaluating a side-effect free function as a term: obligations are generated elsewhere
	}
	if x.partialMode && kind != "ensures" && kind != "assert@call" {
		loopKind := strings.Contains(kind, "/invariant") || strings.HasSuffix(kind, "/decreases") || kind == "frame"
		// run-time safety is claimed for the loop-free prefix of every path of the function itself: before
		// the first loop the symbolic state is exact, behind it (invariants unchecked) it is not
		prefixSafety := !x.partialLoops && !st.looped && fr != nil && fr.fn == x.curTop && safetyKinds[kind]
		if !(x.partialLoops && loopKind) && !prefixSafety {
			return // `partial` contract: only the listed ensures / asserts are claimed for this function
		}
	}
	sub := ""
	if fr != nil && fr.fn != x.curTop {
		sub = funcKey(fr.fn)
	}
	k := siteKey{top: x.curTopName, sub: sub, kind: kind, tag: tag, in: in, idx: idx}
	if goal == "true" {
		// holds by construction on this path (no query); remembered so that the vacuity guard knows the
		// obligation was reached on a path on which it is not just vacuously true
		if si, ok := x.sites[k]; ok {
			si.trivial = true
		} else {
			x.trivialSites[k] = true
		}
		return
	}
	si, ok := x.sites[k]
	if !ok {
		si = &siteInfo{key: k, trivial: x.trivialSites[k]}
		if ins, ok := in.(ssa.Instruction); ok && ins != nil && ins.Block() != nil {
			si.order = [4]int{0, ins.Block().Index, instrIndex(ins), idx}
		} else if c, ok := in.(*Clause); ok {
			si.order = [4]int{1, c.Line, idx, 0}
		}
		x.sites[k] = si
	}
	pos := ""
	if ins, ok := in.(ssa.Instruction); ok && ins != nil {
		pos = posStr(x.fset, ins.Pos())
		if pos == "" && ins.Block() != nil {
			// nearest position in block
			for _, j := range ins.Block().Instrs {
				if j.Pos().IsValid() {
					pos = posStr(x.fset, j.Pos())
				}
				if j == ins && pos != "" {
					break
				}
			}
		}
	} else if c, ok := in.(*Clause); ok {
		pos = fmt.Sprintf("contract line %d", c.Line)
	}
	// a quantified conjunction is proved conjunct by conjunct (A && B is valid iff A and B are): the
	// queries stay small and each needs only its own instantiations
	for _, g := range splitGoal(goal) {
		o := &Obligation{Kind: kind, Tag: tag, Fn: x.curTopName, Pos: pos, Desc: desc, defs: st.defs, goal: g}
		x.obls = append(x.obls, o)
		x.oblSite[o] = si
	}
}

// splitGoal splits (and A B ..) and (=> P (and A B ..)) into one goal per conjunct when the goal is
// quantified; anything else is returned unchanged.
func splitGoal(goal string) []string {
	if !strings.Contains(goal, "(forall ") && !strings.Contains(goal, "(exists ") {
		return []string{goal}
	}
	args, ok := sexprArgs(goal)
	if !ok {
		return []string{goal}
	}
	var out []string
	switch {
	case args[0] == "and" && len(args) >= 3:
		for _, a := range args[1:] {
			out = append(out, splitGoal(a)...)
		}
	case args[0] == "=>" && len(args) == 3:
		parts := splitGoal(args[2])
		if len(parts) == 1 {
			return []string{goal}
		}
		for _, p := range parts {
			out = append(out, "(=> "+args[1]+" "+p+")")
		}
	default:
		return []string{goal}
	}
	if len(out) > 12 {
		return []string{goal}
	}
	return out
}

// sexprArgs returns the operator and the top-level arguments of "(op a b ..)".
func sexprArgs(s string) ([]string, bool) {
	if len(s) < 2 || s[0] != '(' || s[len(s)-1] != ')' {
		return nil, false
	}
	body := s[1 : len(s)-1]
	var parts []string
	depth, start, inBar, inStr := 0, -1, false, false
	for i := 0; i < len(body); i++ {
		c := body[i]
		switch {
		case inBar:
			if c == '|' {
				inBar = false
			}
		case inStr:
			if c == '"' {
				inStr = false
			}
		case c == '|':
			inBar = true
			if start < 0 {
				start = i
			}
		case c == '"':
			inStr = true
			if start < 0 {
				start = i
			}
		case c == '(':
			if start < 0 {
				start = i
			}
			depth++
		case c == ')':
			depth--
			if depth < 0 {
				return nil, false
			}
		case c == ' ' || c == '\n' || c == '\t':
			if depth == 0 && start >= 0 {
				parts = append(parts, body[start:i])
				start = -1
			}
		default:
			if start < 0 {
				start = i
			}
		}
	}
	if depth != 0 || inBar || inStr {
		return nil, false
	}
	if start >= 0 {
		parts = append(parts, body[start:])
	}
	if len(parts) < 2 {
		return nil, false
	}
	return parts, true
}

func instrIndex(in ssa.Instruction) int {
	for i, j := range in.Block().Instrs {
		if j == in {
			return i
		}
	}
	return -1
}

// finalizeNames assigns stable names to obligation sites.
func (x *Exec) finalizeNames() {
	groups := map[string][]*siteInfo{}
	for _, si := range x.sites {
		if si.name != "" {
			continue
		}
		g := si.key.top + "/" + si.key.kind
		if si.key.sub != "" {
			g += "@" + si.key.sub
		}
		if si.key.tag != "" {
			g += "[" + si.key.tag + "]"
		}
		groups[g] = append(groups[g], si)
	}
	for g, sis := range groups {
		sort.Slice(sis, func(i, j int) bool {
			a, b := sis[i].order, sis[j].order
			for k := 0; k < 4; k++ {
				if a[k] != b[k] {
					return a[k] < b[k]
				}
			}
			return false
		})
		// number after existing names of this group
		n := 0
		for _, si := range x.sites {
			if si.name != "" && strings.HasPrefix(si.name, g+"#") {
				n++
			}
		}
		for _, si := range sis {
			n++
			si.name = fmt.Sprintf("%s#%d", g, n)
		}
	}
	for _, o := range x.obls {
		if o.Name == "" {
			o.Name = x.oblSite[o].name
		}
	}
}

func (x *Exec) safety(st *State, fr *Frame, kind string, in ssa.Instruction, idx int, goal, desc string) {
	if !x.safetyOn {
		return
	}
	if fr != nil && fr.contract != nil && fr.contract.Safety == "no-overflow" && kind == "overflow" {
		x.trusted["machine arithmetic treated as mathematical in "+funcFull(fr.fn)+" (integer overflow obligations switched off by its contract)"] = true
		return
	}
	if fr != nil && fr.contract != nil && fr.contract.Safety == "off" {
		x.note("safety obligations switched off by contract for " + funcFull(fr.fn))
		return
	}
	x.oblige(st, fr, kind, "", in, idx, goal, desc)
	x.assume(st, goal) // continue under the assumption that the check passed (panic otherwise)
}

func (x *Exec) nilCheck(st *State, fr *Frame, ref string, in ssa.Instruction) {
	if in == nil {
		return
	}
	x.safety(st, fr, "nil-deref", in, 0, not(eq(ref, "0")), "pointer is non-nil")
}

// frameCheck: a write to a pre-existing object must be allowed by the enclosing modifies clauses.
func (x *Exec) frameCheck(st *State, fr *Frame, ref string, in ssa.Instruction) {
	if in == nil {
		return
	}
	var conj []string
	for f := fr; f != nil; f = f.parent {
		for _, al := range f.loops {
			if al.hasMods {
				conj = append(conj, x.allowed(ref, al.entryAlloc, al.mods))
			}
		}
		if f.top {
			conj = append(conj, x.allowed(ref, f.entryAlloc, f.mods))
		}
	}
	goal := and(conj...)
	if goal == "true" {
		return
	}
	x.oblige(st, fr, "frame", "", in, 0, goal, "write stays inside the modifies clause")
}

func (x *Exec) allowed(ref, entryAlloc string, mods []string) string {
	parts := []string{app(">=", ref, entryAlloc), eq(ref, "0")} // the nil object is never actually written
	for _, m := range mods {
		parts = append(parts, modMatch(ref, m))
	}
	return or(parts...)
}

// modMatch: does object ref belong to the modifies entry m (a reference term, or a predicate
// encoded as "@PRED@" + body with %R% standing for the object)?
func modMatch(ref, m string) string {
	if strings.HasPrefix(m, "@PRED@") {
		return strings.ReplaceAll(m[6:], "%R%", ref)
	}
	return eq(ref, m)
}

func funcKey(fn *ssa.Function) string {
	name := fn.Name()
	if fn.Signature.Recv() != nil {
		rt := fn.Signature.Recv().Type()
		s := types.TypeString(rt, func(*types.Package) string { return "" })
		return "(" + s + ")." + name
	}
	// instantiated generic: strip type arguments for lookup, keep in name
	return name
}

func funcFull(fn *ssa.Function) string {
	p := ""
	if fn.Pkg != nil {
		p = fn.Pkg.Pkg.Name() + "."
	} else if fn.Origin() != nil && fn.Origin().Pkg != nil {
		p = fn.Origin().Pkg.Pkg.Name() + "."
	} else if fn.Parent() != nil {
		return funcFull(fn.Parent()) + "$" + strings.TrimPrefix(fn.Name(), fn.Parent().Name()+"$")
	}
	return p + funcKey(fn)
}

// contractFor finds the contract of fn (or nil).
func (x *Exec) contractFor(fn *ssa.Function) *FuncContract {
	f := fn
	if fn.Origin() != nil {
		f = fn.Origin()
	}
	var pkg *ssa.Package = f.Pkg
	for p := f; pkg == nil && p != nil; p = p.Parent() {
		pkg = p.Pkg
	}
	if pkg == nil {
		return nil
	}
	pc := x.contracts[pkg.Pkg.Path()]
	if pc == nil {
		return nil
	}
	if c, ok := pc.Funcs[funcKey(fn)]; ok {
		return c
	}
	if fn.Origin() != nil {
		if c, ok := pc.Funcs[funcKey(fn.Origin())]; ok {
			return c
		}
	}
	return nil
}

// obligation kinds that guard against a run-time panic
var safetyKinds = map[string]bool{"index": true, "slice-bounds": true, "nil-deref": true, "div-zero": true, "nil-map": true,
	"type-assert": true, "nil-func": true, "heap-pop-empty": true, "makeslice": true}
