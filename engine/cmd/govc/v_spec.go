package main

// Specification expression language: lexer + Pratt parser.
//
// Grammar (lowest to highest precedence):
//   forall x, y T :: E | exists x T :: E      (extends as far right as possible)
//   E <==> E
//   E ==> E            (right associative)
//   C ? A : B
//   ||  &&  (== != < <= > >= in)  (+ -)  (* / %)  unary(! - *)  postfix(.f [i] [a:b] (args) .(T))

import (
	"fmt"
	"strings"
	"unicode"
)

type Expr interface{}

type (
	Ident     struct{ Name string }
	IntLit    struct{ V string }
	FloatLit  struct{ V string }
	StringLit struct{ V string }
	BoolLit   struct{ V bool }
	Unary     struct {
		Op string
		X  Expr
	}
	Binary struct {
		Op   string
		X, Y Expr
	}
	CondE struct{ C, A, B Expr }
	CallE struct {
		Fun  string
		Args []Expr
	}
	IndexE struct{ X, I Expr }
	SliceE struct{ X, Lo, Hi Expr }
	SelE   struct {
		X    Expr
		Name string
	}
	Bound struct{ Name, Type string }
	Quant struct {
		Forall bool
		Vars   []Bound
		Body   Expr
	}
	TypeAssertE struct {
		X    Expr
		Type string
	}
	// EachE: set comprehension in modifies clauses: each r :: P(r)
	EachE struct {
		Var  string
		Body Expr
	}
	LetE struct {
		Name string
		Val  Expr
		Body Expr
	}
)

type stok struct {
	kind string // ident int float string op eof
	text string
	pos  int
}

type lexer struct {
	src  string
	toks []stok
}

var ops3 = []string{"<==>"}
var ops2 = []string{"==>", "::", "==", "!=", "<=", ">=", "&&", "||", ".("}
var ops1 = "+-*/%<>!()[]{},.:?"

func lex(src string) ([]stok, error) {
	var toks []stok
	i := 0
	for i < len(src) {
		c := src[i]
		if c == ' ' || c == '\t' || c == '\n' {
			i++
			continue
		}
		if unicode.IsLetter(rune(c)) || c == '_' || c == '$' {
			j := i
			for j < len(src) && (unicode.IsLetter(rune(src[j])) || unicode.IsDigit(rune(src[j])) || src[j] == '_' || src[j] == '$' || src[j] == '#') {
				j++
			}
			toks = append(toks, stok{"ident", src[i:j], i})
			i = j
			continue
		}
		if unicode.IsDigit(rune(c)) {
			j := i
			isf := false
			for j < len(src) && (unicode.IsDigit(rune(src[j])) || (src[j] == '.' && j+1 < len(src) && unicode.IsDigit(rune(src[j+1])))) {
				if src[j] == '.' {
					isf = true
				}
				j++
			}
			k := "int"
			if isf {
				k = "float"
			}
			toks = append(toks, stok{k, src[i:j], i})
			i = j
			continue
		}
		if c == '"' {
			j := i + 1
			for j < len(src) && src[j] != '"' {
				j++
			}
			if j >= len(src) {
				return nil, fmt.Errorf("unterminated string at %d", i)
			}
			toks = append(toks, stok{"string", src[i+1 : j], i})
			i = j + 1
			continue
		}
		matched := false
		for _, o := range ops3 {
			if strings.HasPrefix(src[i:], o) {
				toks = append(toks, stok{"op", o, i})
				i += len(o)
				matched = true
				break
			}
		}
		if matched {
			continue
		}
		for _, o := range ops2 {
			if strings.HasPrefix(src[i:], o) {
				toks = append(toks, stok{"op", o, i})
				i += len(o)
				matched = true
				break
			}
		}
		if matched {
			continue
		}
		if strings.IndexByte(ops1, c) >= 0 {
			toks = append(toks, stok{"op", string(c), i})
			i++
			continue
		}
		return nil, fmt.Errorf("unexpected character %q at %d in %q", c, i, src)
	}
	toks = append(toks, stok{"eof", "", len(src)})
	return toks, nil
}

type parser struct {
	toks []stok
	p    int
	src  string
}

func parseSpecExpr(src string) (e Expr, err error) {
	toks, err := lex(src)
	if err != nil {
		return nil, err
	}
	ps := &parser{toks: toks, src: src}
	defer func() {
		if r := recover(); r != nil {
			if pe, ok := r.(parseErr); ok {
				err = fmt.Errorf("%s in %q", string(pe), src)
				return
			}
			panic(r)
		}
	}()
	e = ps.expr(0)
	if ps.peek().kind != "eof" {
		ps.fail("unexpected %q", ps.peek().text)
	}
	return e, nil
}

type parseErr string

func (ps *parser) fail(f string, a ...interface{}) {
	panic(parseErr(fmt.Sprintf("spec parse error at %d: ", ps.peek().pos) + fmt.Sprintf(f, a...)))
}
func (ps *parser) peek() stok { return ps.toks[ps.p] }
func (ps *parser) next() stok { t := ps.toks[ps.p]; ps.p++; return t }
func (ps *parser) isOp(s string) bool {
	t := ps.peek()
	return t.kind == "op" && t.text == s
}
func (ps *parser) expectOp(s string) {
	if !ps.isOp(s) {
		ps.fail("expected %q, got %q", s, ps.peek().text)
	}
	ps.next()
}

var binPrec = map[string]int{
	"<==>": 1, "==>": 2, "?": 3, "||": 4, "&&": 5,
	"==": 6, "!=": 6, "<": 6, "<=": 6, ">": 6, ">=": 6, "in": 6,
	"+": 7, "-": 7, "*": 8, "/": 8, "%": 8,
}

func (ps *parser) expr(minPrec int) Expr {
	t := ps.peek()
	if t.kind == "ident" && (t.text == "forall" || t.text == "exists") {
		return ps.quant()
	}
	if t.kind == "ident" && t.text == "let" {
		ps.next()
		name := ps.next()
		if name.kind != "ident" {
			ps.fail("let: expected identifier")
		}
		ps.expectOp("==") // let x == e :: body
		val := ps.expr(3)
		ps.expectOp("::")
		body := ps.expr(0)
		return &LetE{name.text, val, body}
	}
	lhs := ps.unary()
	var lastCmpRoot Expr
	var lastCmp *Binary // most recent comparison built in this loop: a <= b < c chains
	for {
		t := ps.peek()
		var op string
		if t.kind == "op" {
			op = t.text
		} else if t.kind == "ident" && t.text == "in" {
			op = "in"
		} else {
			break
		}
		prec, ok := binPrec[op]
		if !ok || prec < minPrec {
			break
		}
		ps.next()
		switch op {
		case "?":
			a := ps.expr(0)
			ps.expectOp(":")
			b := ps.expr(3)
			lhs = &CondE{lhs, a, b}
		case "==>":
			rhs := ps.expr(prec) // right assoc
			lhs = &Binary{op, lhs, rhs}
		default:
			rhs := ps.expr(prec + 1)
			if prec == 6 && op != "in" && lastCmp != nil && lhs == lastCmpRoot {
				nc := &Binary{op, lastCmp.Y, rhs}
				lhs = &Binary{"&&", lhs, nc}
				lastCmp, lastCmpRoot = nc, lhs
				continue
			}
			nb := &Binary{op, lhs, rhs}
			lhs = nb
			if prec == 6 && op != "in" {
				lastCmp, lastCmpRoot = nb, lhs
			} else {
				lastCmp, lastCmpRoot = nil, nil
			}
		}
	}
	return lhs
}

func (ps *parser) quant() Expr {
	q := &Quant{Forall: ps.next().text == "forall"}
	// groups: a, b T, c U ::
	for {
		var names []string
		for {
			n := ps.next()
			if n.kind != "ident" {
				ps.fail("quantifier: expected variable name")
			}
			names = append(names, n.text)
			if ps.isOp(",") {
				ps.next()
				continue
			}
			break
		}
		// last ident in names may actually be the type when written "i int" -> names=[i], then type follows
		ty := "int"
		if ps.peek().kind == "ident" {
			ty = ps.typeName()
		} else if ps.isOp("*") || ps.isOp("[") {
			ty = ps.typeName()
		}
		for _, n := range names {
			q.Vars = append(q.Vars, Bound{n, ty})
		}
		if ps.isOp(",") {
			ps.next()
			continue
		}
		break
	}
	ps.expectOp("::")
	q.Body = ps.expr(0)
	return q
}

func (ps *parser) typeName() string {
	s := ""
	for ps.isOp("*") || ps.isOp("[") {
		if ps.isOp("[") {
			ps.next()
			ps.expectOp("]")
			s += "[]"
		} else {
			ps.next()
			s += "*"
		}
	}
	t := ps.next()
	if t.kind != "ident" {
		ps.fail("expected type name")
	}
	s += t.text
	for ps.isOp(".") {
		ps.next()
		s += "." + ps.next().text
	}
	return s
}

func (ps *parser) unary() Expr {
	t := ps.peek()
	if t.kind == "op" && (t.text == "!" || t.text == "-" || t.text == "*") {
		ps.next()
		x := ps.unary()
		return &Unary{t.text, x}
	}
	return ps.postfix(ps.primary())
}

func (ps *parser) primary() Expr {
	t := ps.next()
	switch t.kind {
	case "int":
		return &IntLit{t.text}
	case "float":
		return &FloatLit{t.text}
	case "string":
		return &StringLit{t.text}
	case "ident":
		switch t.text {
		case "true":
			return &BoolLit{true}
		case "false":
			return &BoolLit{false}
		}
		return &Ident{t.text}
	case "op":
		if t.text == "(" {
			e := ps.expr(0)
			ps.expectOp(")")
			return e
		}
	}
	ps.p--
	ps.fail("unexpected %q", t.text)
	return nil
}

func (ps *parser) postfix(x Expr) Expr {
	for {
		switch {
		case ps.isOp(".("):
			ps.next()
			ty := ps.typeName()
			ps.expectOp(")")
			x = &TypeAssertE{x, ty}
		case ps.isOp("."):
			ps.next()
			n := ps.next()
			if n.kind != "ident" {
				ps.fail("expected field name")
			}
			x = &SelE{x, n.text}
		case ps.isOp("["):
			ps.next()
			if ps.isOp(":") {
				ps.next()
				var hi Expr
				if !ps.isOp("]") {
					hi = ps.expr(0)
				}
				ps.expectOp("]")
				x = &SliceE{x, nil, hi}
				continue
			}
			i := ps.expr(0)
			if ps.isOp(":") {
				ps.next()
				var hi Expr
				if !ps.isOp("]") {
					hi = ps.expr(0)
				}
				ps.expectOp("]")
				x = &SliceE{x, i, hi}
				continue
			}
			ps.expectOp("]")
			x = &IndexE{x, i}
		case ps.isOp("("):
			id, ok := x.(*Ident)
			if !ok {
				// qualified call like pkg.F(...)
				if s, ok2 := x.(*SelE); ok2 {
					if b, ok3 := s.X.(*Ident); ok3 {
						id = &Ident{b.Name + "." + s.Name}
						ok = true
					}
				}
				if !ok {
					ps.fail("call of non-identifier")
				}
			}
			ps.next()
			var args []Expr
			for !ps.isOp(")") {
				args = append(args, ps.expr(0))
				if ps.isOp(",") {
					ps.next()
				} else {
					break
				}
			}
			ps.expectOp(")")
			x = &CallE{id.Name, args}
		default:
			return x
		}
	}
}

func exprString(e Expr) string {
	switch e := e.(type) {
	case *Ident:
		return e.Name
	case *IntLit:
		return e.V
	case *FloatLit:
		return e.V
	case *StringLit:
		return fmt.Sprintf("%q", e.V)
	case *BoolLit:
		return fmt.Sprint(e.V)
	case *Unary:
		return e.Op + exprString(e.X)
	case *Binary:
		return "(" + exprString(e.X) + " " + e.Op + " " + exprString(e.Y) + ")"
	case *CondE:
		return "(" + exprString(e.C) + " ? " + exprString(e.A) + " : " + exprString(e.B) + ")"
	case *CallE:
		var a []string
		for _, x := range e.Args {
			a = append(a, exprString(x))
		}
		return e.Fun + "(" + strings.Join(a, ", ") + ")"
	case *IndexE:
		return exprString(e.X) + "[" + exprString(e.I) + "]"
	case *SliceE:
		lo, hi := "", ""
		if e.Lo != nil {
			lo = exprString(e.Lo)
		}
		if e.Hi != nil {
			hi = exprString(e.Hi)
		}
		return exprString(e.X) + "[" + lo + ":" + hi + "]"
	case *SelE:
		return exprString(e.X) + "." + e.Name
	case *Quant:
		k := "exists"
		if e.Forall {
			k = "forall"
		}
		var v []string
		for _, b := range e.Vars {
			v = append(v, b.Name+" "+b.Type)
		}
		return "(" + k + " " + strings.Join(v, ", ") + " :: " + exprString(e.Body) + ")"
	case *TypeAssertE:
		return exprString(e.X) + ".(" + e.Type + ")"
	case *LetE:
		return "(let " + e.Name + " == " + exprString(e.Val) + " :: " + exprString(e.Body) + ")"
	}
	return fmt.Sprintf("%v", e)
}

// mentionsTrace reports whether e uses called/res/arg/before (facts about a function's own call trace).
func mentionsTrace(e Expr) bool {
	found := false
	var walk func(Expr)
	walk = func(e Expr) {
		switch n := e.(type) {
		case *Unary:
			walk(n.X)
		case *Binary:
			walk(n.X)
			walk(n.Y)
		case *CondE:
			walk(n.C)
			walk(n.A)
			walk(n.B)
		case *CallE:
			switch n.Fun {
			case "called", "res", "arg", "before":
				found = true
			}
			for _, a := range n.Args {
				walk(a)
			}
		case *IndexE:
			walk(n.X)
			walk(n.I)
		case *SliceE:
			walk(n.X)
			if n.Lo != nil {
				walk(n.Lo)
			}
			if n.Hi != nil {
				walk(n.Hi)
			}
		case *SelE:
			walk(n.X)
		case *Quant:
			walk(n.Body)
		case *TypeAssertE:
			walk(n.X)
		case *LetE:
			walk(n.Val)
			walk(n.Body)
		}
	}
	walk(e)
	return found
}
