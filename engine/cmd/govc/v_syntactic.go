package main

import (
	"regexp"
	"strings"
)

// Syntactic discharge: a goal that is, up to the names of bound variables, literally one of the
// hypotheses of its query (or a top-level conjunct of one) is valid without consulting a solver.
// This matters for loop invariants that are re-established unchanged (inner loop exit -> outer
// invariant): pure E-matching does not close `H and not H` when H has nested quantifiers.

var boundVarRe = regexp.MustCompile(`\bq_[A-Za-z0-9]+_[0-9]+\b`)

func alphaNorm(s string) string {
	idx := map[string]string{}
	return boundVarRe.ReplaceAllStringFunc(s, func(m string) string {
		if r, ok := idx[m]; ok {
			return r
		}
		r := "q#" + string(rune('a'+len(idx)%26)) + strings.Repeat("'", len(idx)/26)
		idx[m] = r
		return r
	})
}

func conjuncts(s string, depth int, out *[]string) {
	*out = append(*out, s)
	if depth > 6 || !strings.HasPrefix(s, "(and ") {
		return
	}
	if args, ok := sexprArgs(s); ok && args[0] == "and" {
		for _, a := range args[1:] {
			conjuncts(a, depth+1, out)
		}
	}
}

func syntacticallyAssumed(o *Obligation) bool {
	if o.Cover || o.Raw != "" || o.goal == "" || o.goal == "raw" {
		return false
	}
	goals := []string{o.goal}
	if args, ok := sexprArgs(o.goal); ok && args[0] == "=>" && len(args) == 3 {
		goals = append(goals, args[2])
	}
	want := map[string]bool{}
	for _, g := range goals {
		if len(g) < 40 {
			continue // tiny goals are cheap for the solver; keep this path for the large quantified ones
		}
		want[alphaNorm(g)] = true
	}
	if len(want) == 0 {
		return false
	}
	for d := o.defs; d != nil; d = d.prev {
		l := d.line
		if !strings.HasPrefix(l, "(assert ") {
			continue
		}
		body := strings.TrimSuffix(strings.TrimPrefix(strings.TrimSpace(l), "(assert "), ")")
		var cs []string
		conjuncts(body, 0, &cs)
		for _, c := range cs {
			if len(c) >= 40 && want[alphaNorm(c)] {
				return true
			}
		}
	}
	return false
}
