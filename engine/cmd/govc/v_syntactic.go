package main

import (
	"regexp"
	"strings"
)

// Syntactic discharge: a goal that is, up to the names of bound variables, literally one of the
// hypotheses of its query (or a top-level conjunct of one) is valid without consulting a solver.
// This matters for loop invariants that are re-established unchanged (inner loop exit -> outer
// invariant): pure E-matching does not close `H and not H` when H has nested quantifiers.

var boundVarRe = regexp.MustCompile(`\bq_[A-Za-z0-9]+_[0-9]+\b`)

func alphaNorm(s string) string {
	idx := map[string]string{}
	return boundVarRe.ReplaceAllStringFunc(s, func(m string) string {
		if r, ok := idx[m]; ok {
			return r
		}
		r := "q#" + string(rune('a'+len(idx)%26)) + strings.Repeat("'", len(idx)/26)
		idx[m] = r
		return r
	})
}

func conjuncts(s string, depth int, out *[]string) {
	*out = append(*out, s)
	if depth > 6 || !strings.HasPrefix(s, "(and ") {
		return
	}
	if args, ok := sexprArgs(s); ok && args[0] == "and" {
		for _, a := range args[1:] {
			conjuncts(a, depth+1, out)
		}
	}
}

var defFunRe = regexp.MustCompile(`^\(define-fun ([A-Za-z0-9_!.]+) \(\) [^ ]+ (.*)\)$`)
var identRe = regexp.MustCompile(`[A-Za-z_][A-Za-z0-9_!.]*`)

// expandDefs replaces nullary define-fun names by their bodies (a few rounds), so that `j` and the
// term it abbreviates compare equal.
func expandDefs(s string, defs map[string]string) string {
	for round := 0; round < 4; round++ {
		changed := false
		s = identRe.ReplaceAllStringFunc(s, func(id string) string {
			if b, ok := defs[id]; ok && len(b) < 400 {
				changed = true
				return b
			}
			return id
		})
		if !changed || len(s) > 200000 {
			break
		}
	}
	return s
}

func syntacticallyAssumed(o *Obligation) bool {
	if o.Cover || o.Raw != "" || o.goal == "" || o.goal == "raw" {
		return false
	}
	if syntacticMatch(o, nil) {
		return true
	}
	defs := map[string]string{}
	for d := o.defs; d != nil; d = d.prev {
		if strings.HasPrefix(d.line, "(define-fun ") && !strings.Contains(d.line, "Array") {
			if m := defFunRe.FindStringSubmatch(strings.TrimSpace(d.line)); m != nil {
				defs[m[1]] = m[2]
			}
		}
	}
	if len(defs) == 0 {
		return false
	}
	return syntacticMatch(o, defs)
}

func syntacticMatch(o *Obligation, defs map[string]string) bool {
	norm := func(s string) string {
		if defs != nil {
			s = expandDefs(s, defs)
		}
		return alphaNorm(s)
	}
	goals := []string{o.goal}
	if args, ok := sexprArgs(o.goal); ok && args[0] == "=>" && len(args) == 3 {
		goals = append(goals, args[2])
	}
	want := map[string]bool{}
	for _, g := range goals {
		if len(g) < 40 {
			continue // tiny goals are cheap for the solver; keep this path for the large quantified ones
		}
		want[norm(g)] = true
	}
	if len(want) == 0 {
		return false
	}
	for d := o.defs; d != nil; d = d.prev {
		l := d.line
		if !strings.HasPrefix(l, "(assert ") {
			continue
		}
		body := strings.TrimSuffix(strings.TrimPrefix(strings.TrimSpace(l), "(assert "), ")")
		var cs []string
		conjuncts(body, 0, &cs)
		for _, c := range cs {
			if len(c) >= 40 && want[norm(c)] {
				return true
			}
		}
	}
	return false
}
