package main

import (
	"sort"

	"golang.org/x/tools/go/ssa"
)

// tryEvalBool evaluates a clause, reporting false instead of aborting the function when the
// clause cannot be evaluated (e.g. a generic callee's clause that only type-checks for one
// instantiation). Skipping an assumption is always sound.
func (x *Exec) tryEvalBool(env *SpecEnv, e Expr) (g string, ok bool) {
	pure := x.pure
	defer func() {
		if r := recover(); r != nil {
			if _, isU := r.(unsupported); isU {
				x.pure = pure
				g, ok = "", false
				return
			}
			panic(r)
		}
	}()
	return env.evalBool(e), true
}

// deterministic iteration orders: the text of a query must not depend on Go's map order,
// otherwise solver behaviour on hard queries varies from run to run
func sortedAllocs(m map[*ssa.Alloc]bool) []*ssa.Alloc {
	var out []*ssa.Alloc
	for a := range m {
		out = append(out, a)
	}
	sort.Slice(out, func(i, j int) bool {
		a, b := out[i], out[j]
		if a.Parent() != b.Parent() {
			return a.Parent().String() < b.Parent().String()
		}
		if a.Block().Index != b.Block().Index {
			return a.Block().Index < b.Block().Index
		}
		if a.Pos() != b.Pos() {
			return a.Pos() < b.Pos()
		}
		return a.Name() < b.Name()
	})
	return out
}

func sortedInts(m map[int]bool) []int {
	var out []int
	for i := range m {
		out = append(out, i)
	}
	sort.Ints(out)
	return out
}

func sortedBlocks(m map[*ssa.BasicBlock]bool) []*ssa.BasicBlock {
	var out []*ssa.BasicBlock
	for b := range m {
		out = append(out, b)
	}
	sort.Slice(out, func(i, j int) bool { return out[i].Index < out[j].Index })
	return out
}
