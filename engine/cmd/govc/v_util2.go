package main

// tryEvalBool evaluates a clause, reporting false instead of aborting the function when the
// clause cannot be evaluated (e.g. a generic callee's clause that only type-checks for one
// instantiation). Skipping an assumption is always sound.
func (x *Exec) tryEvalBool(env *SpecEnv, e Expr) (g string, ok bool) {
	pure := x.pure
	defer func() {
		if r := recover(); r != nil {
			if _, isU := r.(unsupported); isU {
				x.pure = pure
				g, ok = "", false
				return
			}
			panic(r)
		}
	}()
	return env.evalBool(e), true
}
