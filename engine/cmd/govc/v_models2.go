package main

import (
	"golang.org/x/tools/go/ssa"
)

func init() {
	models["math.Round"] = func(x *Exec, st *State, fr *Frame, in ssa.Instruction, fn *ssa.Function, args []Val, k callCont) {
		x.used("math.Round (nearest integer, halves away from zero; on the real-number reading of float64)")
		a := args[0].(Term)
		k(st, Term{x.define(st, "rnd", "Real", app("to_real", app("roundhalf", a.S))), a.T})
	}
	models["github.com/projecteru2/core/utils.AdvancedDivide"] = func(x *Exec, st *State, fr *Frame, in ssa.Instruction, fn *ssa.Function, args []Val, k callCont) {
		x.used("utils.AdvancedDivide (0 when either operand is 0, else the quotient)")
		a, b := args[0].(Term), args[1].(Term)
		srt := x.sortOf(a.T)
		zero, div := "0", "godiv"
		if srt == "Real" {
			zero, div = "0.0", "/"
		}
		k(st, Term{x.define(st, "adv", srt, ite(or(eq(a.S, zero), eq(b.S, zero)), zero, app(div, a.S, b.S))), a.T})
	}
}
