package main

import (
	"context"
	"os"
	"path/filepath"
	"strings"
	"sync"
)

// Vacuity guard per obligation site (run after solving): an `ensures` or `assert before call` obligation
// all of whose path queries were discharged is looked at once more with the goal removed. If the
// hypotheses of EVERY one of its paths are refutable, the obligation holds only because no execution
// reaches it -- which is how a defect of the generator (or a contradictory contract) shows up: three
// such defects were found in this engine by seeded changes (DESIGN.md 8.1). The scan stops at the
// first path whose hypotheses are not refuted (sat, unknown or timeout within 3 s of E-matching), so it
// costs about one extra query per site.
func (x *Exec) vacuousSites(cfg solveCfg, prelude string) map[string]int {
	bySite := map[*siteInfo][]*Obligation{}
	var order []*siteInfo
	for _, o := range x.obls {
		if o.Cover || o.Raw != "" || (o.Kind != "ensures" && o.Kind != "assert@call") {
			continue
		}
		si := x.oblSite[o]
		if _, ok := bySite[si]; !ok {
			order = append(order, si)
		}
		bySite[si] = append(bySite[si], o)
	}
	out := map[string]int{}
	var mu sync.Mutex
	var wg sync.WaitGroup
	sem := make(chan struct{}, 8)
	for _, si := range order {
		obls := bySite[si]
		all := true
		for _, o := range obls {
			if o.Result != "unsat" {
				all = false
			}
		}
		if !all || si.trivial {
			continue // a failing obligation is reported anyway; one that held by construction on some path was reached
		}
		wg.Add(1)
		sem <- struct{}{}
		go func(si *siteInfo, obls []*Obligation) {
			defer wg.Done()
			defer func() { <-sem }()
			for i, o := range obls {
				c := *o
				c.Cover = true
				text := x.queryText(&c, prelude, false)
				// an obligation `P ==> Q` says something only where P holds: ask for a path on which it does
				if args, ok := sexprArgs(o.goal); ok && len(args) == 3 && args[0] == "=>" {
					text = strings.Replace(text, "(check-sat)\n", "(assert "+args[1]+")\n(check-sat)\n", 1)
				}
				file := filepath.Join(cfg.dir, "vac_"+sanitize(o.Name)+"_"+itoa(i)+".smt2")
				os.WriteFile(file, []byte(text), 0o644)
				r, _, _ := runSolver(context.Background(), solvers[3], file, 3)
				os.Remove(file)
				if r != "unsat" {
					return // reachable (or not refuted): not vacuous
				}
			}
			mu.Lock()
			out[obls[0].Name] = len(obls)
			mu.Unlock()
		}(si, obls)
	}
	wg.Wait()
	return out
}

func itoa(i int) string {
	if i == 0 {
		return "0"
	}
	var b []byte
	for i > 0 {
		b = append([]byte{byte('0' + i%10)}, b...)
		i /= 10
	}
	return string(b)
}

var _ = strings.TrimSpace
