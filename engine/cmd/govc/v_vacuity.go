package main

import (
	"context"
	"go/types"
	"os"
	"path/filepath"
	"sort"
	"strings"
	"sync"

	"golang.org/x/tools/go/packages"
	"golang.org/x/tools/go/ssa"
)

// Vacuity guard per obligation site (run after solving): an `ensures` or `assert before call` obligation
// all of whose path queries were discharged is looked at once more with the goal removed. If the
// hypotheses of EVERY one of its paths are refutable, the obligation holds only because no execution
// reaches it -- which is how a defect of the generator (or a contradictory contract) shows up: three
// such defects were found in this engine by seeded changes (DESIGN.md 8.1). The scan stops at the
// first path whose hypotheses are not refuted (sat, unknown or timeout within 3 s of E-matching), so it
// costs about one extra query per site.
func (x *Exec) vacuousSites(cfg solveCfg, prelude string) map[string]int {
	bySite := map[*siteInfo][]*Obligation{}
	var order []*siteInfo
	for _, o := range x.obls {
		if o.Cover || o.Raw != "" || (o.Kind != "ensures" && o.Kind != "assert@call") {
			continue
		}
		si := x.oblSite[o]
		if _, ok := bySite[si]; !ok {
			order = append(order, si)
		}
		bySite[si] = append(bySite[si], o)
	}
	out := map[string]int{}
	var mu sync.Mutex
	var wg sync.WaitGroup
	sem := make(chan struct{}, 8)
	for _, si := range order {
		obls := bySite[si]
		all := true
		for _, o := range obls {
			if o.Result != "unsat" {
				all = false
			}
		}
		if !all || si.trivial {
			continue // a failing obligation is reported anyway; one that held by construction on some path was reached
		}
		wg.Add(1)
		sem <- struct{}{}
		go func(si *siteInfo, obls []*Obligation) {
			defer wg.Done()
			defer func() { <-sem }()
			for i, o := range obls {
				c := *o
				c.Cover = true
				text := x.queryText(&c, prelude, false)
				// an obligation `P ==> Q` says something only where P holds: ask for a path on which it does
				if args, ok := sexprArgs(o.goal); ok && len(args) == 3 && args[0] == "=>" {
					text = strings.Replace(text, "(check-sat)\n", "(assert "+args[1]+")\n(check-sat)\n", 1)
				}
				file := filepath.Join(cfg.dir, "vac_"+sanitize(o.Name)+"_"+itoa(i)+".smt2")
				os.WriteFile(file, []byte(text), 0o644)
				r, _, _ := runSolver(context.Background(), solvers[3], file, 3)
				os.Remove(file)
				if r != "unsat" {
					return // reachable (or not refuted): not vacuous
				}
			}
			mu.Lock()
			out[obls[0].Name] = len(obls)
			mu.Unlock()
		}(si, obls)
	}
	wg.Wait()
	return out
}

func itoa(i int) string {
	if i == 0 {
		return "0"
	}
	var b []byte
	for i > 0 {
		b = append([]byte{byte('0' + i%10)}, b...)
		i /= 10
	}
	return string(b)
}

var _ = strings.TrimSpace

// unmatchedContracts lists the contract blocks ("pkg.key") that attach to nothing: no function, method or
// function literal of the package has that key, and it does not name a method of an interface type
// visible from the package.
func (x *Exec) unmatchedContracts(pkgs []*packages.Package, funcs map[string]*ssa.Function) []string {
	have := map[string]map[string]bool{} // package path -> function keys
	for _, fn := range funcs {
		f := fn
		if fn.Origin() != nil {
			f = fn.Origin()
		}
		var pkg *ssa.Package
		for p := f; pkg == nil && p != nil; p = p.Parent() {
			pkg = p.Pkg
		}
		if pkg == nil {
			continue
		}
		m := have[pkg.Pkg.Path()]
		if m == nil {
			m = map[string]bool{}
			have[pkg.Pkg.Path()] = m
		}
		m[funcKey(fn)] = true
		m[funcKey(f)] = true
	}
	isIfaceMethod := func(p *packages.Package, key string) bool {
		if !strings.HasPrefix(key, "(") {
			return false
		}
		i := strings.Index(key, ").")
		if i < 0 {
			return false
		}
		tn, mn := strings.TrimPrefix(key[1:i], "*"), key[i+2:]
		scopes := []*types.Scope{p.Types.Scope()}
		for _, q := range pkgs {
			scopes = append(scopes, q.Types.Scope())
		}
		for _, imp := range p.Types.Imports() {
			scopes = append(scopes, imp.Scope())
			for _, imp2 := range imp.Imports() {
				scopes = append(scopes, imp2.Scope())
			}
		}
		for _, sc := range scopes {
			if o, ok := sc.Lookup(tn).(*types.TypeName); ok {
				if it, ok := o.Type().Underlying().(*types.Interface); ok {
					for k := 0; k < it.NumMethods(); k++ {
						if it.Method(k).Name() == mn {
							return true
						}
					}
				}
			}
		}
		return false
	}
	var out []string
	for _, p := range pkgs {
		c := x.contracts[p.PkgPath]
		if c == nil || p.Types == nil {
			continue
		}
		for key := range c.Funcs {
			if have[p.PkgPath][key] || isIfaceMethod(p, key) {
				continue
			}
			out = append(out, p.Types.Name()+"."+key)
		}
	}
	sort.Strings(out)
	return out
}
