package main

import (
	"go/types"

	"golang.org/x/tools/go/ssa"
)

// sort.Strings / sort.Ints / slices.Sort: ascending order of the natural (<) order of the elements.
func sortNaturalModel(x *Exec, st *State, fr *Frame, in ssa.Instruction, fn *ssa.Function, args []Val, k callCont) {
	x.used("sort.Strings/sort.Ints/slices.Sort (result is an ascending permutation of the input)")
	t, ok := args[0].(Term)
	if !ok {
		bail("sort: unsupported argument")
	}
	sl, ok := t.T.Underlying().(*types.Slice)
	if !ok {
		bail("sort on %s", t.T)
	}
	s := t.S
	n := x.define(st, "n", "Int", app("s_len", s))
	arr := x.define(st, "arr", "Int", app("s_arr", s))
	off := x.define(st, "off", "Int", app("s_off", s))
	x.frameCheck(st, fr, arr, in)
	_, _, nb := x.permute(st, sl.Elem(), arr, off, n)
	i, j := x.fresh("i"), x.fresh("j")
	x.assume(st, "(forall (("+i+" Int) ("+j+" Int)) (! (=> (and (<= 0 "+i+") (< "+i+" "+j+") (< "+j+" "+n+")) (<= (select "+nb+" (at "+off+" "+i+")) (select "+nb+" (at "+off+" "+j+")))) :pattern ((select "+nb+" (at "+off+" "+i+")) (select "+nb+" (at "+off+" "+j+")))))")
	k(st, nil)
}

func sortNaturalEffects(x *Exec, ms *modSet, cc *ssa.CallCommon, visiting map[*ssa.Function]bool) {
	if sl, ok := cc.Args[0].Type().Underlying().(*types.Slice); ok {
		n, s := x.arrName(sl.Elem())
		ms.arrays[n] = s
		return
	}
	ms.all = true
}

func init() {
	for _, n := range []string{"sort.Strings", "sort.Ints", "golang.org/x/exp/slices.Sort", "slices.Sort"} {
		models[n] = sortNaturalModel
		effects[n] = sortNaturalEffects
	}
}
