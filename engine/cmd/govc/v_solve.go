package main

import (
	"bytes"
	"context"
	"crypto/sha1"
	"fmt"
	"os"
	"os/exec"
	"path/filepath"
	"runtime"
	"strings"
	"sync"
	"time"
)

type solverSpec struct {
	name string
	args func(file string, secs int) []string
	bin  string
}

var solvers = []solverSpec{
	{name: "z3-new", bin: "z3-new", args: func(f string, s int) []string { return []string{fmt.Sprintf("-T:%d", s), f} }},
	{name: "z3", bin: "z3", args: func(f string, s int) []string { return []string{fmt.Sprintf("-T:%d", s), f} }},
	{name: "z3-new/ematch", bin: "z3-new", args: func(f string, s int) []string {
		return []string{fmt.Sprintf("-T:%d", s), "smt.auto_config=false", "smt.mbqi=false", f}
	}},
	{name: "z3-new/ematch-shallow", bin: "z3-new", args: func(f string, s int) []string {
		// low eager threshold: instances of deep generations are delayed, which tames matching loops
		return []string{fmt.Sprintf("-T:%d", s), "smt.auto_config=false", "smt.mbqi=false", "smt.qi.eager_threshold=2", f}
	}},
	// further E-matching configurations for the stage-2 race: quantified obligations whose hypotheses
	// form a matching loop (two mutually inverse forall-exists facts, say) are decided by generation-
	// limited E-matching only, and how quickly depends on threshold and seed; a wider portfolio makes
	// the outcome independent of one configuration's luck
	{name: "z3-new/ematch-shallow3", bin: "z3-new", args: func(f string, s int) []string {
		return []string{fmt.Sprintf("-T:%d", s), "smt.auto_config=false", "smt.mbqi=false", "smt.qi.eager_threshold=3", f}
	}},
	{name: "z3-new/ematch-shallow1", bin: "z3-new", args: func(f string, s int) []string {
		return []string{fmt.Sprintf("-T:%d", s), "smt.auto_config=false", "smt.mbqi=false", "smt.qi.eager_threshold=1", f}
	}},
	{name: "z3-new/ematch-shallow/seed1", bin: "z3-new", args: func(f string, s int) []string {
		return []string{fmt.Sprintf("-T:%d", s), "smt.auto_config=false", "smt.mbqi=false", "smt.qi.eager_threshold=2", "smt.random_seed=1", f}
	}},
	{name: "cvc5", bin: "cvc5", args: func(f string, s int) []string {
		return []string{fmt.Sprintf("--tlimit=%d", s*1000), "--full-saturate-quant", f}
	}},
}

type solveCfg struct {
	dir       string
	fastSecs  int
	fullSecs  int
	jobs      int
	confirm   bool // require a second solver to agree on unsat (thorough)
	keepFiles bool
	raw       bool // hand-written query: race the plain solvers only
	idle      bool // idle retry: straight to the full race, no reduced-hypothesis retries
}

// procSem bounds the number of solver processes of this check to the number of cores, so that a
// solver's time limit measures solving and not waiting for a core.
var procSem = make(chan struct{}, runtime.NumCPU())

func runSolver(ctx context.Context, sp solverSpec, file string, secs int) (string, string, float64) {
	select {
	case procSem <- struct{}{}:
		defer func() { <-procSem }()
	case <-ctx.Done():
		return "unknown", "", 0
	}
	t0 := time.Now()
	cctx, cancel := context.WithTimeout(ctx, time.Duration(secs+2)*time.Second)
	defer cancel()
	cmd := exec.CommandContext(cctx, sp.bin, sp.args(file, secs)...)
	var out bytes.Buffer
	cmd.Stdout = &out
	cmd.Stderr = &out
	_ = cmd.Run()
	el := time.Since(t0).Seconds()
	text := out.String()
	first := ""
	for _, l := range strings.Split(text, "\n") {
		l = strings.TrimSpace(l)
		if l == "" || strings.HasPrefix(l, "WARNING") {
			continue
		}
		first = l
		break
	}
	switch first {
	case "unsat", "sat", "unknown":
		return first, text, el
	}
	if strings.Contains(text, "timeout") || cctx.Err() != nil {
		return "timeout", text, el
	}
	return "error", text, el
}

func (x *Exec) queryText(o *Obligation, prelude string, model bool) string {
	if o.Raw != "" {
		return o.Raw
	}
	var b strings.Builder
	b.WriteString("(set-option :produce-models true)\n(set-logic ALL)\n")
	body := defsText(o.defs) + o.goal
	// finite-sum axioms are only relevant (and only safe for instantiation) where the sum is used
	for _, l := range strings.Split(prelude, "\n") {
		if i := strings.Index(l, "(ssum_"); i >= 0 && strings.HasPrefix(l, "(assert (forall ((a (Array") {
			name := l[i+1:]
			if j := strings.IndexAny(name, " )"); j > 0 {
				name = name[:j]
			}
			if !strings.Contains(body, name) {
				continue
			}
		}
		// the string-length axioms only matter (and only cost instantiations) where a length is taken
		if strings.HasPrefix(l, "(assert") && strings.Contains(l, "(strlen ") && !strings.Contains(body, "(strlen ") {
			continue
		}
		b.WriteString(l)
		b.WriteString("\n")
	}
	b.WriteString(defsText(o.defs))
	if !o.Cover {
		b.WriteString("(assert (not " + o.goal + "))\n")
	}
	b.WriteString("(check-sat)\n")
	if model {
		b.WriteString("(get-model)\n")
	}
	return b.String()
}

// solveAll discharges all obligations. Identical queries are solved once.
func (x *Exec) solveAll(cfg solveCfg) {
	prelude := x.reg.prelude()
	os.MkdirAll(cfg.dir, 0o755)
	type job struct {
		text string
		obls []*Obligation
		file string
	}
	byHash := map[string]*job{}
	var jobs []*job
	for _, o := range x.obls {
		if o.Result != "" {
			continue
		}
		if syntacticallyAssumed(o) {
			o.Result, o.Solver = "unsat", "syntactic (the goal is literally one of the hypotheses)"
			continue
		}
		text := x.queryText(o, prelude, false)
		h := fmt.Sprintf("%x", sha1.Sum([]byte(text)))
		j, ok := byHash[h]
		if !ok {
			j = &job{text: text, file: filepath.Join(cfg.dir, "q_"+h[:16]+".smt2")}
			byHash[h] = j
			jobs = append(jobs, j)
		}
		j.obls = append(j.obls, o)
	}
	sem := make(chan struct{}, cfg.jobs)
	var wg sync.WaitGroup
	// once two path queries of an obligation are undecided after the full first phase, its remaining
	// path queries are deferred to the idle phase (which stops at the first final failure)
	var umu sync.Mutex
	undecided := map[*siteInfo]int{}
	for _, j := range jobs {
		wg.Add(1)
		sem <- struct{}{}
		go func(j *job) {
			defer wg.Done()
			defer func() { <-sem }()
			os.WriteFile(j.file, []byte(j.text), 0o644)
			if !j.obls[0].Cover && j.obls[0].MaxSec == 0 {
				umu.Lock()
				deferIt := true
				for _, o := range j.obls {
					if undecided[x.oblSite[o]] < 2 {
						deferIt = false
					}
				}
				umu.Unlock()
				if deferIt {
					for _, o := range j.obls {
						o.Result, o.Solver, o.File = "deferred", "deferred to the idle phase", j.file
					}
					return
				}
				defer func() {
					if r := j.obls[0].Result; r != "unsat" {
						umu.Lock()
						for _, o := range j.obls {
							undecided[x.oblSite[o]]++
						}
						umu.Unlock()
					}
				}()
			}
			jcfg := cfg
			if j.obls[0].MaxSec > 0 {
				jcfg.fullSecs = j.obls[0].MaxSec
				jcfg.raw = true
			}
			res, solver, secs, out := solveOne(j.file, jcfg, j.obls[0].Cover)
			for _, o := range j.obls {
				o.Result, o.Solver, o.Secs, o.File = res, solver, secs, j.file
				if res != "unsat" {
					o.Model = out
				}
			}
			if !cfg.keepFiles && (res == "unsat" && !j.obls[0].Cover || res == "sat" && j.obls[0].Cover) {
				os.Remove(j.file)
			}
		}(j)
	}
	wg.Wait()
	// Obligations nobody decided (timeout / unknown, never a definite "sat") are tried once more when
	// the machine is idle, a few at a time and with twice the budget: a timeout under the load of
	// the parallel phase is not evidence about the code.
	var retry []*job
	for _, j := range jobs {
		o := j.obls[0]
		if o.Cover || o.MaxSec > 0 || o.Result == "unsat" || o.Result == "sat" {
			continue
		}
		if x.knownObl[o.Name] {
			continue // listed known finding: expected not to be provable, no second attempt
		}
		retry = append(retry, j)
	}
	if len(retry) > 0 {
		// an obligation is reported as failed as soon as one of its path queries fails for good:
		// the remaining undecided path queries of the same obligation are not retried (they cannot
		// change the verdict), which bounds the time a failing check takes
		var fmu sync.Mutex
		failedSite := map[*siteInfo]bool{}
		for _, j := range jobs {
			for _, o := range j.obls {
				if o.Result == "sat" && !o.Cover {
					failedSite[x.oblSite[o]] = true // a counterexample was already found for this obligation
				}
			}
		}
		siteDone := func(j *job) bool {
			fmu.Lock()
			defer fmu.Unlock()
			for _, o := range j.obls {
				if !failedSite[x.oblSite[o]] {
					return false
				}
			}
			return true
		}
		sem2 := make(chan struct{}, 3)
		var wg2 sync.WaitGroup
		for _, j := range retry {
			wg2.Add(1)
			sem2 <- struct{}{}
			go func(j *job) {
				defer wg2.Done()
				defer func() { <-sem2 }()
				if siteDone(j) {
					for _, o := range j.obls {
						o.Solver += "; not retried: another path query of this obligation already failed"
					}
					return
				}
				defer func() {
					if r := j.obls[0].Result; r != "unsat" {
						fmu.Lock()
						for _, o := range j.obls {
							failedSite[x.oblSite[o]] = true
						}
						fmu.Unlock()
					}
				}()
				jcfg := cfg
				jcfg.fullSecs = cfg.fullSecs * 2
				jcfg.idle = true
				res, solver, secs, out := solveOne(j.file, jcfg, false)
				if res == "unsat" || res == "sat" {
					solver += " (idle retry)"
				}
				for _, o := range j.obls {
					prev := o.Secs
					o.Result, o.Solver, o.Secs = res, solver, prev+secs
					o.Model = ""
					if res != "unsat" {
						o.Model = out
					}
				}
				if !cfg.keepFiles && res == "unsat" {
					os.Remove(j.file)
				}
			}(j)
		}
		wg2.Wait()
	}
}

// solveOne: stage 1 z3-new with a short limit; stage 2 all solvers raced.
func solveOne(file string, cfg solveCfg, cover bool) (res, solver string, secs float64, out string) {
	t0 := time.Now()
	if cfg.raw {
		ctx, cancel := context.WithCancel(context.Background())
		defer cancel()
		type ans struct{ r, text, name string }
		ch := make(chan ans, 3)
		racers := []solverSpec{solvers[0], solvers[1], solvers[len(solvers)-1]}
		for _, sp := range racers {
			go func(sp solverSpec) {
				r, text, _ := runSolver(ctx, sp, file, cfg.fullSecs)
				ch <- ans{r, text, sp.name}
			}(sp)
		}
		last := ans{r: "timeout"}
		for range racers {
			a := <-ch
			if a.r == "unsat" || a.r == "sat" {
				return a.r, a.name, time.Since(t0).Seconds(), a.text
			}
			last = a
		}
		return last.r, last.name, time.Since(t0).Seconds(), last.text
	}
	var r, text string
	if cfg.idle {
		r = "unknown"
	} else if !cfg.confirm && !cover {
		// stage 1: default z3-new and shallow E-matching start together (between them they decide
		// almost every query in a fraction of a second); if neither has answered after a moment,
		// z3 4.8 and plain E-matching join the race. The first definite answer wins.
		var nm string
		r, nm, text = raceSolvers(file, []int{3, 0, 1, 2}, 1, cfg.fastSecs+2, 500*time.Millisecond)
		if r == "unsat" || r == "sat" {
			return r, nm, time.Since(t0).Seconds(), text
		}
	} else {
		r, text, _ = runSolver(context.Background(), solvers[0], file, cfg.fastSecs)
		if cover && r != "unsat" {
			// vacuity guard: only a refutation of the precondition matters; "sat", "unknown" and a
			// timeout all mean the solver could not show the precondition contradictory
			return r, solvers[0].name, time.Since(t0).Seconds(), text
		}
		if cover && r == "unsat" && !cfg.confirm {
			return r, solvers[0].name, time.Since(t0).Seconds(), text
		}
	}
	firstRes, firstSolver := r, solvers[0].name
	// race
	ctx, cancel := context.WithCancel(context.Background())
	defer cancel()
	type ans struct {
		r, text, name string
	}
	ch := make(chan ans, len(solvers))
	start := 0
	if cfg.confirm && (firstRes == "unsat" || firstRes == "sat") {
		start = 1 // need another solver to agree
	}
	n := 0
	for i := start; i < len(solvers); i++ {
		n++
		go func(sp solverSpec) {
			r, text, _ := runSolver(ctx, sp, file, cfg.fullSecs)
			ch <- ans{r, text, sp.name}
		}(solvers[i])
	}
	best := ans{r: "unknown"}
	var all []string
	for i := 0; i < n; i++ {
		a := <-ch
		all = append(all, a.name+": "+strings.TrimSpace(strings.SplitN(a.text, "\n", 2)[0]))
		if a.r == "unsat" || a.r == "sat" {
			if cfg.confirm && start == 1 && a.r != firstRes {
				return "disagree", firstSolver + "/" + a.name, time.Since(t0).Seconds(), firstRes + " vs " + a.r
			}
			best = a
			cancel()
			break
		}
		if best.r == "unknown" && a.r == "timeout" {
			best.r = "timeout"
		}
		if a.r == "error" && best.text == "" {
			best.text = a.text
		}
	}
	if best.r != "unsat" && best.r != "sat" && !cover && !cfg.idle {
		// Dropping hypotheses is sound: retry with the forall-exists assumptions (which tend to
		// cause matching loops) removed, then with exactly one of them kept.
		if r, nm, text := solveReduced(file, cfg); r == "unsat" {
			return r, nm, time.Since(t0).Seconds(), text
		}
	}
	name := best.name
	if cfg.confirm && start == 1 && (best.r == "unsat" || best.r == "sat") {
		name = firstSolver + "+" + best.name
	}
	if best.r != "unsat" && best.r != "sat" {
		if cfg.confirm && start == 1 {
			// first solver was definite, nobody confirmed in time: accept the first answer but say so
			return firstRes, firstSolver + " (unconfirmed)", time.Since(t0).Seconds(), strings.Join(all, "; ")
		}
		return best.r, strings.Join(all, "; "), time.Since(t0).Seconds(), best.text
	}
	return best.r, name, time.Since(t0).Seconds(), best.text
}

// modelFor re-runs a failed obligation asking for a model.
func (x *Exec) modelFor(o *Obligation, cfg solveCfg) string {
	text := x.queryText(o, x.reg.prelude(), true)
	file := strings.TrimSuffix(o.File, ".smt2") + "_model.smt2"
	if o.File == "" {
		file = filepath.Join(cfg.dir, "model.smt2")
	}
	os.WriteFile(file, []byte(text), 0o644)
	defer os.Remove(file)
	for _, sp := range solvers[:2] {
		r, out, _ := runSolver(context.Background(), sp, file, cfg.fullSecs)
		if r == "sat" {
			return out
		}
	}
	return ""
}

// solveReduced retries a query with fewer hypotheses (sound for unsat answers).
func solveReduced(file string, cfg solveCfg) (string, string, string) {
	b, err := os.ReadFile(file)
	if err != nil {
		return "error", "", ""
	}
	lines := strings.Split(string(b), "\n")
	var toxic []int
	for i, l := range lines {
		if strings.HasPrefix(l, "(assert (forall") && strings.Contains(l, "(exists ") {
			toxic = append(toxic, i)
		}
	}
	if len(toxic) == 0 {
		return "unknown", "", ""
	}
	try := func(keep int, tag string) (string, string) {
		var out []string
		for i, l := range lines {
			drop := false
			for _, t := range toxic {
				if i == t && t != keep {
					drop = true
				}
			}
			if !drop {
				out = append(out, l)
			}
		}
		rf := strings.TrimSuffix(file, ".smt2") + "_red" + tag + ".smt2"
		os.WriteFile(rf, []byte(strings.Join(out, "\n")), 0o644)
		defer os.Remove(rf)
		for _, si := range []int{3, 0} {
			if r, text, _ := runSolver(context.Background(), solvers[si], rf, 6); r == "unsat" {
				return r, text
			}
		}
		return "unknown", ""
	}
	if r, text := try(-1, "0"); r == "unsat" {
		return r, "z3-new (reduced: forall-exists hypotheses dropped)", text
	}
	if len(toxic) <= 8 {
		for k, t := range toxic {
			if r, text := try(t, fmt.Sprint(k+1)); r == "unsat" {
				return r, "z3-new (reduced: one forall-exists hypothesis kept)", text
			}
		}
	}
	return "unknown", "", ""
}

// raceSolvers runs the given solver configurations concurrently on one query and returns the
// first definite answer (unsat/sat), cancelling the others.
// The first `eager` configurations start at once, the others after `delay`.
func raceSolvers(file string, idx []int, eager, secs int, delay time.Duration) (string, string, string) {
	ctx, cancel := context.WithCancel(context.Background())
	defer cancel()
	type ans struct{ r, text, name string }
	ch := make(chan ans, len(idx))
	for k, i := range idx {
		go func(k int, sp solverSpec) {
			if k >= eager && delay > 0 {
				select {
				case <-ctx.Done():
					ch <- ans{"unknown", "", sp.name}
					return
				case <-time.After(delay):
				}
			}
			r, text, _ := runSolver(ctx, sp, file, secs)
			ch <- ans{r, text, sp.name}
		}(k, solvers[i])
	}
	for range idx {
		a := <-ch
		if a.r == "unsat" || a.r == "sat" {
			return a.r, a.name, a.text
		}
	}
	return "unknown", "", ""
}
