package main

import (
	"bytes"
	"context"
	"crypto/sha1"
	"fmt"
	"os"
	"os/exec"
	"path/filepath"
	"strings"
	"sync"
	"time"
)

type solverSpec struct {
	name string
	args func(file string, secs int) []string
	bin  string
}

var solvers = []solverSpec{
	{name: "z3-new", bin: "z3-new", args: func(f string, s int) []string { return []string{fmt.Sprintf("-T:%d", s), f} }},
	{name: "z3", bin: "z3", args: func(f string, s int) []string { return []string{fmt.Sprintf("-T:%d", s), f} }},
	{name: "z3-new/ematch", bin: "z3-new", args: func(f string, s int) []string {
		return []string{fmt.Sprintf("-T:%d", s), "smt.auto_config=false", "smt.mbqi=false", f}
	}},
	{name: "z3-new/ematch-shallow", bin: "z3-new", args: func(f string, s int) []string {
		// low eager threshold: instances of deep generations are delayed, which tames matching loops
		return []string{fmt.Sprintf("-T:%d", s), "smt.auto_config=false", "smt.mbqi=false", "smt.qi.eager_threshold=2", f}
	}},
	{name: "cvc5", bin: "cvc5", args: func(f string, s int) []string {
		return []string{fmt.Sprintf("--tlimit=%d", s*1000), "--full-saturate-quant", f}
	}},
}

type solveCfg struct {
	dir       string
	fastSecs  int
	fullSecs  int
	jobs      int
	confirm   bool // require a second solver to agree on unsat (thorough)
	keepFiles bool
	raw       bool // hand-written query: race the plain solvers only
}

func runSolver(ctx context.Context, sp solverSpec, file string, secs int) (string, string, float64) {
	t0 := time.Now()
	cctx, cancel := context.WithTimeout(ctx, time.Duration(secs+2)*time.Second)
	defer cancel()
	cmd := exec.CommandContext(cctx, sp.bin, sp.args(file, secs)...)
	var out bytes.Buffer
	cmd.Stdout = &out
	cmd.Stderr = &out
	_ = cmd.Run()
	el := time.Since(t0).Seconds()
	text := out.String()
	first := ""
	for _, l := range strings.Split(text, "\n") {
		l = strings.TrimSpace(l)
		if l == "" || strings.HasPrefix(l, "WARNING") {
			continue
		}
		first = l
		break
	}
	switch first {
	case "unsat", "sat", "unknown":
		return first, text, el
	}
	if strings.Contains(text, "timeout") || cctx.Err() != nil {
		return "timeout", text, el
	}
	return "error", text, el
}

func (x *Exec) queryText(o *Obligation, prelude string, model bool) string {
	if o.Raw != "" {
		return o.Raw
	}
	var b strings.Builder
	b.WriteString("(set-option :produce-models true)\n(set-logic ALL)\n")
	body := defsText(o.defs) + o.goal
	// finite-sum axioms are only relevant (and only safe for instantiation) where the sum is used
	for _, l := range strings.Split(prelude, "\n") {
		if i := strings.Index(l, "(ssum_"); i >= 0 && strings.HasPrefix(l, "(assert (forall ((a (Array") {
			name := l[i+1:]
			if j := strings.IndexAny(name, " )"); j > 0 {
				name = name[:j]
			}
			if !strings.Contains(body, name) {
				continue
			}
		}
		b.WriteString(l)
		b.WriteString("\n")
	}
	b.WriteString(defsText(o.defs))
	if !o.Cover {
		b.WriteString("(assert (not " + o.goal + "))\n")
	}
	b.WriteString("(check-sat)\n")
	if model {
		b.WriteString("(get-model)\n")
	}
	return b.String()
}

// solveAll discharges all obligations. Identical queries are solved once.
func (x *Exec) solveAll(cfg solveCfg) {
	prelude := x.reg.prelude()
	os.MkdirAll(cfg.dir, 0o755)
	type job struct {
		text string
		obls []*Obligation
		file string
	}
	byHash := map[string]*job{}
	var jobs []*job
	for _, o := range x.obls {
		if o.Result != "" {
			continue
		}
		text := x.queryText(o, prelude, false)
		h := fmt.Sprintf("%x", sha1.Sum([]byte(text)))
		j, ok := byHash[h]
		if !ok {
			j = &job{text: text, file: filepath.Join(cfg.dir, "q_"+h[:16]+".smt2")}
			byHash[h] = j
			jobs = append(jobs, j)
		}
		j.obls = append(j.obls, o)
	}
	sem := make(chan struct{}, cfg.jobs)
	var wg sync.WaitGroup
	for _, j := range jobs {
		wg.Add(1)
		sem <- struct{}{}
		go func(j *job) {
			defer wg.Done()
			defer func() { <-sem }()
			os.WriteFile(j.file, []byte(j.text), 0o644)
			jcfg := cfg
			if j.obls[0].MaxSec > 0 {
				jcfg.fullSecs = j.obls[0].MaxSec
				jcfg.raw = true
			}
			res, solver, secs, out := solveOne(j.file, jcfg, j.obls[0].Cover)
			for _, o := range j.obls {
				o.Result, o.Solver, o.Secs, o.File = res, solver, secs, j.file
				if res != "unsat" {
					o.Model = out
				}
			}
			if !cfg.keepFiles && (res == "unsat" && !j.obls[0].Cover || res == "sat" && j.obls[0].Cover) {
				os.Remove(j.file)
			}
		}(j)
	}
	wg.Wait()
}

// solveOne: stage 1 z3-new with a short limit; stage 2 all solvers raced.
func solveOne(file string, cfg solveCfg, cover bool) (res, solver string, secs float64, out string) {
	t0 := time.Now()
	want := "unsat"
	if cover {
		want = "sat"
	}
	if cfg.raw {
		ctx, cancel := context.WithCancel(context.Background())
		defer cancel()
		type ans struct{ r, text, name string }
		ch := make(chan ans, 3)
		racers := []solverSpec{solvers[0], solvers[1], solvers[len(solvers)-1]}
		for _, sp := range racers {
			go func(sp solverSpec) {
				r, text, _ := runSolver(ctx, sp, file, cfg.fullSecs)
				ch <- ans{r, text, sp.name}
			}(sp)
		}
		last := ans{r: "timeout"}
		for range racers {
			a := <-ch
			if a.r == "unsat" || a.r == "sat" {
				return a.r, a.name, time.Since(t0).Seconds(), a.text
			}
			last = a
		}
		return last.r, last.name, time.Since(t0).Seconds(), last.text
	}
	r, text, _ := runSolver(context.Background(), solvers[0], file, cfg.fastSecs)
	if cover && r != "unsat" {
		// vacuity guard: only a refutation of the precondition matters; "sat", "unknown" and a
		// timeout all mean the solver could not show the precondition contradictory
		return r, solvers[0].name, time.Since(t0).Seconds(), text
	}
	if r == want && !cfg.confirm {
		return r, solvers[0].name, time.Since(t0).Seconds(), text
	}
	if r == "sat" || (cover && r == "unsat") {
		// definite opposite answer
		if !cfg.confirm {
			return r, solvers[0].name, time.Since(t0).Seconds(), text
		}
	}
	if !cfg.confirm && !cover {
		// stage 1b: pure E-matching configuration, cheap and often decisive for quantified goals
		for _, si := range []int{3, 2} {
			if r2, text2, _ := runSolver(context.Background(), solvers[si], file, cfg.fastSecs+2); r2 == "unsat" || r2 == "sat" {
				return r2, solvers[si].name, time.Since(t0).Seconds(), text2
			}
		}
	}
	firstRes, firstSolver := r, solvers[0].name
	// race
	ctx, cancel := context.WithCancel(context.Background())
	defer cancel()
	type ans struct {
		r, text, name string
	}
	ch := make(chan ans, len(solvers))
	start := 0
	if cfg.confirm && (firstRes == "unsat" || firstRes == "sat") {
		start = 1 // need another solver to agree
	}
	n := 0
	for i := start; i < len(solvers); i++ {
		n++
		go func(sp solverSpec) {
			r, text, _ := runSolver(ctx, sp, file, cfg.fullSecs)
			ch <- ans{r, text, sp.name}
		}(solvers[i])
	}
	best := ans{r: "unknown"}
	var all []string
	for i := 0; i < n; i++ {
		a := <-ch
		all = append(all, a.name+": "+strings.TrimSpace(strings.SplitN(a.text, "\n", 2)[0]))
		if a.r == "unsat" || a.r == "sat" {
			if cfg.confirm && start == 1 && a.r != firstRes {
				return "disagree", firstSolver + "/" + a.name, time.Since(t0).Seconds(), firstRes + " vs " + a.r
			}
			best = a
			cancel()
			break
		}
		if best.r == "unknown" && a.r == "timeout" {
			best.r = "timeout"
		}
		if a.r == "error" && best.text == "" {
			best.text = a.text
		}
	}
	if best.r != "unsat" && best.r != "sat" && !cover {
		// Dropping hypotheses is sound: retry with the forall-exists assumptions (which tend to
		// cause matching loops) removed, then with exactly one of them kept.
		if r, nm, text := solveReduced(file, cfg); r == "unsat" {
			return r, nm, time.Since(t0).Seconds(), text
		}
	}
	name := best.name
	if cfg.confirm && start == 1 && (best.r == "unsat" || best.r == "sat") {
		name = firstSolver + "+" + best.name
	}
	if best.r != "unsat" && best.r != "sat" {
		if cfg.confirm && start == 1 {
			// first solver was definite, nobody confirmed in time: accept the first answer but say so
			return firstRes, firstSolver + " (unconfirmed)", time.Since(t0).Seconds(), strings.Join(all, "; ")
		}
		return best.r, strings.Join(all, "; "), time.Since(t0).Seconds(), best.text
	}
	return best.r, name, time.Since(t0).Seconds(), best.text
}

// modelFor re-runs a failed obligation asking for a model.
func (x *Exec) modelFor(o *Obligation, cfg solveCfg) string {
	text := x.queryText(o, x.reg.prelude(), true)
	file := strings.TrimSuffix(o.File, ".smt2") + "_model.smt2"
	if o.File == "" {
		file = filepath.Join(cfg.dir, "model.smt2")
	}
	os.WriteFile(file, []byte(text), 0o644)
	defer os.Remove(file)
	for _, sp := range solvers[:2] {
		r, out, _ := runSolver(context.Background(), sp, file, cfg.fullSecs)
		if r == "sat" {
			return out
		}
	}
	return ""
}

// solveReduced retries a query with fewer hypotheses (sound for unsat answers).
func solveReduced(file string, cfg solveCfg) (string, string, string) {
	b, err := os.ReadFile(file)
	if err != nil {
		return "error", "", ""
	}
	lines := strings.Split(string(b), "\n")
	var toxic []int
	for i, l := range lines {
		if strings.HasPrefix(l, "(assert (forall") && strings.Contains(l, "(exists ") {
			toxic = append(toxic, i)
		}
	}
	if len(toxic) == 0 {
		return "unknown", "", ""
	}
	try := func(keep int, tag string) (string, string) {
		var out []string
		for i, l := range lines {
			drop := false
			for _, t := range toxic {
				if i == t && t != keep {
					drop = true
				}
			}
			if !drop {
				out = append(out, l)
			}
		}
		rf := strings.TrimSuffix(file, ".smt2") + "_red" + tag + ".smt2"
		os.WriteFile(rf, []byte(strings.Join(out, "\n")), 0o644)
		defer os.Remove(rf)
		for _, si := range []int{3, 0} {
			if r, text, _ := runSolver(context.Background(), solvers[si], rf, 6); r == "unsat" {
				return r, text
			}
		}
		return "unknown", ""
	}
	if r, text := try(-1, "0"); r == "unsat" {
		return r, "z3-new (reduced: forall-exists hypotheses dropped)", text
	}
	if len(toxic) <= 8 {
		for k, t := range toxic {
			if r, text := try(t, fmt.Sprint(k+1)); r == "unsat" {
				return r, "z3-new (reduced: one forall-exists hypothesis kept)", text
			}
		}
	}
	return "unknown", "", ""
}
