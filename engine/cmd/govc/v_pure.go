package main

import (
	"go/types"
	"strings"

	"golang.org/x/tools/go/ssa"
)

// pureCall evaluates a loop-free, side-effect free function (a comparator closure, a Less or
// Len method) on the given arguments in state st and returns its result as one SMT term (an
// if-then-else over its paths). Arguments may be quantified variables.
func (x *Exec) pureCall(st *State, fr *Frame, fn *ssa.Function, bind []Val, args []Val) Term {
	if fn.Blocks == nil {
		bail("pureCall: no body for %s", fn)
	}
	x.pureEval++
	saveSafety := x.safetyOn
	x.safetyOn = false
	defer func() { x.pureEval--; x.safetyOn = saveSafety }()
	st2 := st.clone()
	marker := st2.defs
	type pathRes struct {
		cond string
		val  string
	}
	var paths []pathRes
	var resT types.Type
	heapBefore := map[string]string{}
	for k, v := range st2.heap {
		heapBefore[k] = v
	}
	x.execFunction(st2, fn, bind, args, fr, nil, func(s *State, res []Val, panicked bool) {
		if panicked || len(res) != 1 {
			bail("pureCall: %s must return exactly one value", fn.Name())
		}
		t, ok := res[0].(Term)
		if !ok {
			bail("pureCall: %s returns a non-term value", fn.Name())
		}
		resT = t.T
		var conds []string
		for d := s.defs; d != nil && d != marker; d = d.prev {
			switch {
			case strings.HasPrefix(d.line, "(assert "):
				conds = append(conds, strings.TrimSuffix(strings.TrimPrefix(d.line, "(assert "), ")"))
			case strings.HasPrefix(d.line, "(declare-const ") || strings.HasPrefix(d.line, "(declare-fun "):
				bail("pureCall: %s is not a pure function of its arguments (%s)", fn.Name(), d.line)
			}
		}
		for k, v := range s.heap {
			if old, ok := heapBefore[k]; ok && old != v {
				bail("pureCall: %s writes memory (%s)", fn.Name(), k)
			}
		}
		// reverse to program order
		for i, j := 0, len(conds)-1; i < j; i, j = i+1, j-1 {
			conds[i], conds[j] = conds[j], conds[i]
		}
		paths = append(paths, pathRes{and(conds...), t.S})
	})
	if len(paths) == 0 {
		bail("pureCall: %s has no returning path", fn.Name())
	}
	out := paths[len(paths)-1].val
	for i := len(paths) - 2; i >= 0; i-- {
		out = ite(paths[i].cond, paths[i].val, out)
	}
	return Term{out, resT}
}

// callValPure evaluates a function value (closure / static function / bound method) purely.
func (x *Exec) callValPure(st *State, fr *Frame, fv Val, args []Val) Term {
	switch f := fv.(type) {
	case *Closure:
		return x.pureCall(st, fr, f.Fn, f.Bind, args)
	case *StaticFn:
		return x.pureCall(st, fr, f.Fn, nil, args)
	}
	bail("cannot evaluate %T as a pure function", fv)
	return Term{}
}

// methodOf resolves a method of a known dynamic type.
func (x *Exec) methodOf(dyn types.Type, name string) *ssa.Function {
	ms := x.prog.MethodSets.MethodSet(dyn)
	for i := 0; i < ms.Len(); i++ {
		if ms.At(i).Obj().Name() == name {
			return x.prog.MethodValue(ms.At(i))
		}
	}
	bail("method %s not found on %s", name, dyn)
	return nil
}
