package main

// Trusted library contracts ("models"). Each is listed in evidence when used.

import (
	"fmt"
	"go/types"
	"strings"

	"golang.org/x/tools/go/ssa"
)

type modelFn func(x *Exec, st *State, fr *Frame, in ssa.Instruction, fn *ssa.Function, args []Val, k callCont)
type ifaceModelFn func(x *Exec, st *State, fr *Frame, in ssa.Instruction, cc *ssa.CallCommon, recv Val, args []Val, k callCont)
type effectFn func(x *Exec, ms *modSet, cc *ssa.CallCommon, visiting map[*ssa.Function]bool)

func (x *Exec) used(name string) { x.trusted["library contract: "+name] = true }

func ctxDerive(name string, withCancel bool) modelFn {
	return func(x *Exec, st *State, fr *Frame, in ssa.Instruction, fn *ssa.Function, args []Val, k callCont) {
		x.used(name + " (result non-nil, same cancellation root as parent)")
		parent := x.toTerm(st, args[0], fn.Signature.Params().At(0).Type())
		c := x.declare(st, "ctx", "Int")
		x.assume(st, and(not(eq(c, "0")), eq(app("root", c), app("root", parent.S))))
		ct := Term{c, fn.Signature.Results().At(0).Type()}
		if withCancel {
			k(st, Tuple{ct, &Noop{}})
		} else {
			k(st, ct)
		}
	}
}

func ctxRootless(name string) modelFn {
	return func(x *Exec, st *State, fr *Frame, in ssa.Instruction, fn *ssa.Function, args []Val, k callCont) {
		x.used(name + " (never cancelled: root == NEVER)")
		c := x.declare(st, "ctx", "Int")
		x.assume(st, and(not(eq(c, "0")), eq(app("root", c), "(- 1)")))
		k(st, Term{c, fn.Signature.Results().At(0).Type()})
	}
}

func noEffect(x *Exec, st *State, fr *Frame, in ssa.Instruction, fn *ssa.Function, args []Val, k callCont) {
	k(st, x.havocResults(st, "r_"+sanitize(fn.Name()), fn.Signature))
}

// logging helpers return usable (non-nil) loggers
func noEffectNonNil(x *Exec, st *State, fr *Frame, in ssa.Instruction, fn *ssa.Function, args []Val, k callCont) {
	r := x.havocResults(st, "r_"+sanitize(fn.Name()), fn.Signature)
	if t, ok := r.(Term); ok {
		if _, isPtr := t.T.Underlying().(*types.Pointer); isPtr {
			x.assume(st, not(eq(t.S, "0")))
		}
	}
	k(st, r)
}

func errWrap(x *Exec, st *State, fr *Frame, in ssa.Instruction, fn *ssa.Function, args []Val, k callCont) {
	x.used("cockroachdb/errors.Wrap/Wrapf/WithStack (nil iff argument nil; preserves kind)")
	e := x.toTerm(st, args[0], fn.Signature.Params().At(0).Type())
	r := x.declare(st, "err", "Int")
	x.assume(st, and(eq(eq(r, "0"), eq(e.S, "0")), eq(app("kind", r), app("kind", e.S)), app("<=", "0", r)))
	k(st, Term{r, fn.Signature.Results().At(0).Type()})
}

func errNew(x *Exec, st *State, fr *Frame, in ssa.Instruction, fn *ssa.Function, args []Val, k callCont) {
	x.used("errors.New/Newf/Errorf (fresh non-nil error)")
	r := x.declare(st, "err", "Int")
	x.assume(st, and(not(eq(r, "0")), eq(app("kind", r), r)))
	k(st, Term{r, fn.Signature.Results().At(0).Type()})
}

func errIs(x *Exec, st *State, fr *Frame, in ssa.Instruction, fn *ssa.Function, args []Val, k callCont) {
	x.used("errors.Is (compares kind)")
	a := x.toTerm(st, args[0], fn.Signature.Params().At(0).Type())
	b := x.toTerm(st, args[1], fn.Signature.Params().At(1).Type())
	k(st, Term{and(not(eq(a.S, "0")), eq(app("kind", a.S), app("kind", b.S))), types.Typ[types.Bool]})
}

// metadata.FromIncomingContext: the gRPC transport lower-cases every metadata key
// (documented behaviour of google.golang.org/grpc/metadata), so every key k of the
// returned MD satisfies lower(k) == k.
func mdFromIncoming(x *Exec, st *State, fr *Frame, in ssa.Instruction, fn *ssa.Function, args []Val, k callCont) {
	x.used("grpc metadata.FromIncomingContext (keys of incoming metadata are lower-case; ok implies non-nil map)")
	mdT := fn.Signature.Results().At(0).Type()
	mt := mdT.Underlying().(*types.Map)
	md := x.declare(st, "md", "Int")
	ok := x.declare(st, "md_ok", "Bool")
	x.assume(st, and(app("<=", "0", md), app("<", md, st.allocCtr), implies(ok, not(eq(md, "0")))))
	q := x.fresh("k")
	x.assume(st, "(forall (("+q+" Int)) (=> (select "+x.mapDom(st, mt, md)+" "+q+") (= (str_lower "+q+") "+q+")))")
	k(st, Tuple{Term{md, mdT}, Term{ok, types.Typ[types.Bool]}})
}

func strToLower(x *Exec, st *State, fr *Frame, in ssa.Instruction, fn *ssa.Function, args []Val, k callCont) {
	x.used("strings.ToLower (idempotent lower-casing function)")
	x.reg.axioms = appendUniq(x.reg.axioms, "(assert (forall ((s Int)) (! (and (= (str_lower (str_lower s)) (str_lower s)) (>= (str_lower s) 0)) :pattern ((str_lower s)))))")
	s := args[0].(Term)
	k(st, Term{x.define(st, "lower", "Int", app("str_lower", s.S)), s.T})
}

// utils.Min / utils.Max (generic, variadic): exact when the variadic slice has a known small length.
func utilsMinMax(isMin bool) modelFn {
	return func(x *Exec, st *State, fr *Frame, in ssa.Instruction, fn *ssa.Function, args []Val, k callCont) {
		x.used("utils.Min/utils.Max (least / greatest of the arguments)")
		a := args[0].(Term)
		srt := x.sortOf(a.T)
		p := map[string]string{"Int": "i", "Real": "r"}[srt]
		if p == "" {
			bail("utils.Min/Max on sort %s", srt)
		}
		op := p + "max"
		if isMin {
			op = p + "min"
		}
		cur := a.S
		if len(args) > 1 {
			s := args[1].(Term).S
			n, ok := numeral(simplifyLen(app("s_len", s), st))
			if !ok || n > 8 {
				bail("utils.Min/Max with a variadic slice of unknown length")
			}
			name, asrt := x.arrName(a.T)
			arr := x.getArr(st, name, asrt)
			for i := int64(0); i < n; i++ {
				cur = app(op, cur, app("select", app("select", arr, app("s_arr", s)), app("at", app("s_off", s), fmt.Sprint(i))))
			}
		}
		k(st, Term{x.define(st, "mm", srt, cur), a.T})
	}
}

var models = map[string]modelFn{
	"github.com/projecteru2/core/utils.Min": utilsMinMax(true),
	"github.com/projecteru2/core/utils.Max": utilsMinMax(false),
	"github.com/projecteru2/core/utils.Round": func(x *Exec, st *State, fr *Frame, in ssa.Instruction, fn *ssa.Function, args []Val, k callCont) {
		x.note("utils.Round is the identity on the real-number reading of float64 (CPU amounts are decimal fractions that float rounding merely normalises)")
		k(st, args[0])
	},
	"google.golang.org/grpc/metadata.FromIncomingContext": mdFromIncoming,
	"strings.ToLower": strToLower,
	"context.WithTimeout":  ctxDerive("context.WithTimeout", true),
	"context.WithCancel":   ctxDerive("context.WithCancel", true),
	"context.WithDeadline": ctxDerive("context.WithDeadline", true),
	"context.WithValue":    ctxDerive("context.WithValue", false),
	"google.golang.org/grpc/peer.NewContext": ctxDerive("peer.NewContext", false),
	"context.TODO":         ctxRootless("context.TODO"),
	"context.Background":   ctxRootless("context.Background"),
	"google.golang.org/grpc/peer.FromContext": noEffect,
	"github.com/cockroachdb/errors.Wrap":      errWrap,
	"github.com/cockroachdb/errors.Wrapf":     errWrap,
	"github.com/cockroachdb/errors.WithStack": errWrap,
	"github.com/cockroachdb/errors.New":       errNew,
	"github.com/cockroachdb/errors.Newf":      errNew,
	"github.com/cockroachdb/errors.Errorf":    errNew,
	"errors.New":                              errNew,
	"fmt.Errorf":                              errNew,
	"github.com/cockroachdb/errors.Is":        errIs,
	"errors.Is":                               errIs,
}

func (x *Exec) model(full string) modelFn {
	if m, ok := models[full]; ok {
		return m
	}
	// logging, metrics and formatting never touch tracked state
	for _, p := range []string{"github.com/projecteru2/core/log.", "(*github.com/projecteru2/core/log.Fields).", "(github.com/projecteru2/core/log.Fields).", "github.com/projecteru2/core/metrics.",
		"(*github.com/projecteru2/core/metrics.", "fmt.Sprint", "fmt.Print", "fmt.Fprint", "strconv.", "github.com/sanity-io/litter.", "time.Now", "time.Since"} {
		if strings.HasPrefix(full, p) {
			x.trusted["dropped call (no effect on tracked state): "+p+"*"] = true
			if strings.Contains(p, "/core/log.") {
				return noEffectNonNil
			}
			return noEffect
		}
	}
	return nil
}

var ifaceModels = map[string]ifaceModelFn{}

func (x *Exec) ifaceModel(name string) ifaceModelFn { return ifaceModels[name] }

var effects = map[string]effectFn{}

func modelEffects(full string) effectFn { return effects[full] }
