package main

// Sort registry and SMT term helpers. Terms are strings.

import (
	"fmt"
	"go/constant"
	"go/types"
	"math/big"
	"sort"
	"strings"
)

type structInfo struct {
	sort   string
	fields []string // accessor names
	fsorts []string
	ftypes []types.Type
	fnames []string
	st     *types.Struct
}

type Registry struct {
	structs    map[string]*structInfo
	structOrd  []string
	anon       []types.Type
	consts     map[string]string // declared constants: name -> sort (heap array inits etc.)
	constOrd   []string
	funcs      map[string]string // uninterpreted functions: name -> "(args) ret"
	funcOrd    []string
	strLits    map[string]string // literal -> const name
	axioms     []string          // global axioms (after decls)
	ghostDefs  []string          // define-fun / define-fun-rec of ghosts
	usesFloats bool
}

func newRegistry() *Registry {
	return &Registry{structs: map[string]*structInfo{}, consts: map[string]string{}, funcs: map[string]string{}, strLits: map[string]string{}}
}

func sanitize(s string) string {
	var b strings.Builder
	for _, c := range s {
		switch {
		case c >= 'a' && c <= 'z', c >= 'A' && c <= 'Z', c >= '0' && c <= '9', c == '_':
			b.WriteRune(c)
		default:
			b.WriteByte('_')
		}
	}
	return b.String()
}

// sortId makes an identifier fragment out of a sort.
func sortId(s string) string { return sanitize(strings.ReplaceAll(strings.ReplaceAll(s, "(Array ", "Arr_"), ")", "")) }

func (r *Registry) sortOf(T types.Type) string {
	switch t := T.Underlying().(type) {
	case *types.Basic:
		switch {
		case t.Info()&types.IsBoolean != 0:
			return "Bool"
		case t.Info()&types.IsFloat != 0:
			return "Real"
		case t.Info()&types.IsInteger != 0:
			return "Int"
		case t.Info()&types.IsString != 0:
			return "Int"
		case t.Kind() == types.UnsafePointer, t.Kind() == types.UntypedNil:
			return "Int"
		case t.Info()&types.IsComplex != 0:
			return "Int"
		}
		return "Int"
	case *types.Pointer, *types.Map, *types.Chan, *types.Signature, *types.Interface:
		return "Int"
	case *types.Slice:
		return "Slice"
	case *types.Array:
		return "(Array Int " + r.sortOf(t.Elem()) + ")"
	case *types.Struct:
		return r.structSort(T, t).sort
	case *types.Tuple:
		return "Int"
	case *types.TypeParam:
		return "Int"
	}
	return "Int"
}

func (r *Registry) structSort(T types.Type, st *types.Struct) *structInfo {
	name := ""
	if n, ok := T.(*types.Named); ok {
		pk := ""
		if n.Obj().Pkg() != nil {
			pk = n.Obj().Pkg().Name()
		}
		name = "S_" + sanitize(pk) + "_" + sanitize(n.Obj().Name())
		if ta := n.TypeArgs(); ta != nil && ta.Len() > 0 {
			for i := 0; i < ta.Len(); i++ {
				name += "_" + sanitize(ta.At(i).String())
			}
		}
	} else if a, ok := T.(*types.Alias); ok {
		return r.structSort(types.Unalias(a), st)
	} else {
		idx := -1
		for i, a := range r.anon {
			if types.Identical(a, T) {
				idx = i
				break
			}
		}
		if idx < 0 {
			r.anon = append(r.anon, T)
			idx = len(r.anon) - 1
		}
		name = fmt.Sprintf("S_anon%d", idx)
	}
	if si, ok := r.structs[name]; ok {
		return si
	}
	si := &structInfo{sort: name, st: st}
	r.structs[name] = si
	for i := 0; i < st.NumFields(); i++ {
		f := st.Field(i)
		si.fnames = append(si.fnames, f.Name())
		fname := sanitize(f.Name())
		if f.Name() == "_" {
			fname = fmt.Sprintf("blank%d", i)
		}
		si.fields = append(si.fields, "f_"+name+"_"+fname)
		si.ftypes = append(si.ftypes, f.Type())
		si.fsorts = append(si.fsorts, r.sortOf(f.Type()))
	}
	r.structOrd = append(r.structOrd, name) // after field sorts: dependency order
	return si
}

func (r *Registry) declConst(name, sort string) {
	if _, ok := r.consts[name]; !ok {
		r.consts[name] = sort
		r.constOrd = append(r.constOrd, name)
	}
}

func (r *Registry) declFun(name, sig string) {
	if _, ok := r.funcs[name]; !ok {
		r.funcs[name] = sig
		r.funcOrd = append(r.funcOrd, name)
	}
}

func (r *Registry) strLit(s string) string {
	if s == "" {
		return "0"
	}
	if n, ok := r.strLits[s]; ok {
		return n
	}
	n := fmt.Sprintf("strlit_%d", len(r.strLits))
	r.strLits[s] = n
	return n
}

func (r *Registry) zero(T types.Type) string {
	switch t := T.Underlying().(type) {
	case *types.Basic:
		switch {
		case t.Info()&types.IsBoolean != 0:
			return "false"
		case t.Info()&types.IsFloat != 0:
			return "0.0"
		}
		return "0"
	case *types.Slice:
		return "(mk_Slice 0 0 0 0)"
	case *types.Array:
		return "((as const (Array Int " + r.sortOf(t.Elem()) + ")) " + r.zero(t.Elem()) + ")"
	case *types.Struct:
		si := r.structSort(T, t)
		if len(si.fields) == 0 {
			return "mk_" + si.sort
		}
		parts := []string{"mk_" + si.sort}
		for _, ft := range si.ftypes {
			parts = append(parts, r.zero(ft))
		}
		return "(" + strings.Join(parts, " ") + ")"
	}
	return "0"
}

const preludeFixed = `(declare-datatypes ((Slice 0)) (((mk_Slice (s_arr Int) (s_off Int) (s_len Int) (s_cap Int)))))
(define-fun godiv ((a Int) (b Int)) Int (ite (>= a 0) (ite (> b 0) (div a b) (- (div a (- b)))) (ite (> b 0) (- (div (- a) b)) (div (- a) (- b)))))
(define-fun gomod ((a Int) (b Int)) Int (- a (* b (godiv a b))))
(define-fun trunc ((x Real)) Int (ite (>= x 0.0) (to_int x) (- (to_int (- x)))))
(define-fun imin ((a Int) (b Int)) Int (ite (<= a b) a b))
(define-fun imax ((a Int) (b Int)) Int (ite (>= a b) a b))
(define-fun rmin ((a Real) (b Real)) Real (ite (<= a b) a b))
(define-fun rmax ((a Real) (b Real)) Real (ite (>= a b) a b))
(define-fun roundhalf ((x Real)) Int (ite (>= x 0.0) (to_int (+ x 0.5)) (- (to_int (+ (- x) 0.5)))))
(declare-fun at (Int Int) Int)
(assert (forall ((o Int) (i Int)) (! (= (at o i) (+ o i)) :pattern ((at o i)))))
(declare-fun kind (Int) Int)
(declare-fun root (Int) Int)
(declare-fun strlen (Int) Int)
(assert (= (strlen 0) 0))
(assert (forall ((s Int)) (! (and (>= (strlen s) 0) (=> (= (strlen s) 0) (= s 0))) :pattern ((strlen s)))))
(declare-fun str_concat (Int Int) Int)
(declare-fun str_lower (Int) Int)
`

func (r *Registry) prelude() string {
	var b strings.Builder
	b.WriteString(preludeFixed)
	for _, n := range r.structOrd {
		si := r.structs[n]
		if len(si.fields) == 0 {
			fmt.Fprintf(&b, "(declare-datatypes ((%s 0)) (((mk_%s))))\n", n, n)
			continue
		}
		fmt.Fprintf(&b, "(declare-datatypes ((%s 0)) (((mk_%s", n, n)
		for i, f := range si.fields {
			fmt.Fprintf(&b, " (%s %s)", f, si.fsorts[i])
		}
		b.WriteString("))))\n")
	}
	for _, n := range r.constOrd {
		fmt.Fprintf(&b, "(declare-const %s %s)\n", n, r.consts[n])
	}
	for _, n := range r.funcOrd {
		fmt.Fprintf(&b, "(declare-fun %s %s)\n", n, r.funcs[n])
	}
	// string literals: order-consistent, all positive
	var lits []string
	for s := range r.strLits {
		lits = append(lits, s)
	}
	sort.Strings(lits)
	prev := "0"
	for _, s := range lits {
		n := r.strLits[s]
		fmt.Fprintf(&b, "(declare-const %s Int)\n(assert (< %s %s))\n", n, prev, n)
		prev = n
	}
	for _, g := range r.ghostDefs {
		b.WriteString(g)
		b.WriteString("\n")
	}
	for _, a := range r.axioms {
		b.WriteString(a)
		b.WriteString("\n")
	}
	return b.String()
}

// ---- term helpers ----

func app(op string, args ...string) string {
	return "(" + op + " " + strings.Join(args, " ") + ")"
}

func and(args ...string) string {
	var a []string
	for _, x := range args {
		if x == "true" || x == "" {
			continue
		}
		if x == "false" {
			return "false"
		}
		a = append(a, x)
	}
	switch len(a) {
	case 0:
		return "true"
	case 1:
		return a[0]
	}
	return app("and", a...)
}

func or(args ...string) string {
	var a []string
	for _, x := range args {
		if x == "false" || x == "" {
			continue
		}
		if x == "true" {
			return "true"
		}
		a = append(a, x)
	}
	switch len(a) {
	case 0:
		return "false"
	case 1:
		return a[0]
	}
	return app("or", a...)
}

func not(x string) string {
	switch x {
	case "true":
		return "false"
	case "false":
		return "true"
	}
	if strings.HasPrefix(x, "(not ") && balancedSingle(x[5:len(x)-1]) {
		return x[5 : len(x)-1]
	}
	return app("not", x)
}

func balancedSingle(s string) bool {
	if s == "" {
		return false
	}
	if s[0] != '(' {
		return !strings.ContainsAny(s, " ()")
	}
	d := 0
	for i, c := range s {
		if c == '(' {
			d++
		} else if c == ')' {
			d--
			if d == 0 && i != len(s)-1 {
				return false
			}
		}
	}
	return d == 0
}

func implies(a, b string) string {
	if a == "true" {
		return b
	}
	if a == "false" || b == "true" {
		return "true"
	}
	return app("=>", a, b)
}

func ite(c, a, b string) string {
	if c == "true" {
		return a
	}
	if c == "false" {
		return b
	}
	if a == b {
		return a
	}
	return app("ite", c, a, b)
}

func eq(a, b string) string {
	if a == b {
		return "true"
	}
	return app("=", a, b)
}

func intLit(v *big.Int) string {
	if v.Sign() < 0 {
		return "(- " + new(big.Int).Neg(v).String() + ")"
	}
	return v.String()
}

func intLitI(v int64) string { return intLit(big.NewInt(v)) }

func constTerm(r *Registry, c constant.Value, T types.Type) string {
	if c == nil { // nil constant
		return r.zero(T)
	}
	switch u := T.Underlying().(type) {
	case *types.Basic:
		switch {
		case u.Info()&types.IsBoolean != 0:
			if constant.BoolVal(c) {
				return "true"
			}
			return "false"
		case u.Info()&types.IsInteger != 0:
			v := constant.ToInt(c)
			if bi, ok := constant.Val(v).(*big.Int); ok {
				return intLit(bi)
			}
			i, _ := constant.Int64Val(v)
			if u.Info()&types.IsUnsigned != 0 {
				ui, _ := constant.Uint64Val(v)
				return new(big.Int).SetUint64(ui).String()
			}
			return intLitI(i)
		case u.Info()&types.IsFloat != 0:
			f := constant.ToFloat(c)
			switch x := constant.Val(f).(type) {
			case *big.Rat:
				return ratLit(x)
			case *big.Float:
				rt, _ := x.Rat(nil)
				if rt == nil {
					return "0.0"
				}
				return ratLit(rt)
			case int64:
				return intLitI(x) + ".0"
			}
			fv, _ := constant.Float64Val(f)
			rt := new(big.Rat)
			rt.SetFloat64(fv)
			return ratLit(rt)
		case u.Info()&types.IsString != 0:
			return r.strLit(constant.StringVal(c))
		}
	}
	return r.zero(T)
}

func ratLit(x *big.Rat) string {
	neg := x.Sign() < 0
	a := new(big.Rat).Abs(x)
	var s string
	if a.IsInt() {
		s = a.Num().String() + ".0"
	} else {
		s = "(/ " + a.Num().String() + ".0 " + a.Denom().String() + ".0)"
	}
	if neg {
		return "(- " + s + ")"
	}
	return s
}

// integer range of a basic integer type (64-bit int / uint / uintptr)
func intRange(T types.Type) (lo, hi *big.Int, ok bool) {
	b, isb := T.Underlying().(*types.Basic)
	if !isb || b.Info()&types.IsInteger == 0 {
		return nil, nil, false
	}
	bits := 64
	signed := true
	switch b.Kind() {
	case types.Int8:
		bits = 8
	case types.Int16:
		bits = 16
	case types.Int32:
		bits = 32
	case types.Int64, types.Int:
		bits = 64
	case types.Uint8:
		bits, signed = 8, false
	case types.Uint16:
		bits, signed = 16, false
	case types.Uint32:
		bits, signed = 32, false
	case types.Uint64, types.Uint, types.Uintptr:
		bits, signed = 64, false
	case types.UntypedInt, types.UntypedRune:
		return nil, nil, false
	}
	one := big.NewInt(1)
	if signed {
		hi = new(big.Int).Sub(new(big.Int).Lsh(one, uint(bits-1)), one)
		lo = new(big.Int).Neg(new(big.Int).Lsh(one, uint(bits-1)))
	} else {
		lo = big.NewInt(0)
		hi = new(big.Int).Sub(new(big.Int).Lsh(one, uint(bits)), one)
	}
	return lo, hi, true
}

func inRange(t string, T types.Type) string {
	lo, hi, ok := intRange(T)
	if !ok {
		return "true"
	}
	return and(app("<=", intLit(lo), t), app("<=", t, intLit(hi)))
}

// subT / addT: arithmetic with constant folding on numerals.
func subT(a, b string) string {
	if b == "0" {
		return a
	}
	x, okx := numeral(a)
	y, oky := numeral(b)
	if okx && oky && x >= y {
		return fmt.Sprint(x - y)
	}
	return app("-", a, b)
}

func addT(a, b string) string {
	if b == "0" {
		return a
	}
	if a == "0" {
		return b
	}
	x, okx := numeral(a)
	y, oky := numeral(b)
	if okx && oky {
		return fmt.Sprint(x + y)
	}
	return app("+", a, b)
}
