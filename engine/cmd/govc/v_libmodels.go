package main

// Trusted contracts of sort.Slice / sort.SliceStable / sort.Search / container/heap, phrased over
// the caller's own comparator (evaluated as a pure term).

import (
	"fmt"
	"go/types"

	"golang.org/x/tools/go/ssa"
)

func init() {
	models["sort.Slice"] = sortSliceModel(false)
	models["sort.SliceStable"] = sortSliceModel(true)
	models["sort.Search"] = sortSearchModel
	effects["sort.Slice"] = sortEffects
	effects["sort.SliceStable"] = sortEffects
	effects["container/heap.Init"] = heapEffects
	effects["container/heap.Pop"] = heapEffects
	effects["container/heap.Push"] = heapEffects
}

func sortEffects(x *Exec, ms *modSet, cc *ssa.CallCommon, visiting map[*ssa.Function]bool) {
	if mi, ok := cc.Args[0].(*ssa.MakeInterface); ok {
		if sl, ok := mi.X.Type().Underlying().(*types.Slice); ok {
			n, s := x.arrName(sl.Elem())
			ms.arrays[n] = s
			return
		}
	}
	ms.all = true
}

func heapEffects(x *Exec, ms *modSet, cc *ssa.CallCommon, visiting map[*ssa.Function]bool) {
	ms.arrays["HS"] = "(Array Int Int)"
	ms.arrays["HOK"] = "(Array Int Bool)"
	for n, s := range x.hmArrays {
		ms.arrays[n] = s
	}
	// the user's Push/Pop/Swap methods of every heap implementation in the loaded packages
	for fn := range x.allFuncs() {
		if fn.Signature.Recv() == nil || fn.Blocks == nil {
			continue
		}
		switch fn.Name() {
		case "Push", "Pop", "Swap":
			x.mergeMod(ms, x.modSetRec(fn, visiting), nil)
		}
	}
}

// quantified helper: forall vars in [0,n) body
func forallIdx(n string, body string, vars ...string) string {
	var binds, guards []string
	for _, v := range vars {
		binds = append(binds, "("+v+" Int)")
		guards = append(guards, app("<=", "0", v), app("<", v, n))
	}
	s := "(forall ("
	for _, b := range binds {
		s += b
	}
	return s + ") " + implies(and(guards...), body) + ")"
}

// strictWeakOrder emits the comparator obligations for n elements under less(i,j).
func (x *Exec) strictWeakOrder(st *State, fr *Frame, in ssa.Instruction, n string, less func(i, j string) string, what string) {
	i, j, k := x.fresh("i"), x.fresh("j"), x.fresh("k")
	x.oblige(st, fr, "comparator-irreflexive", "", in, 0, forallIdx(n, not(less(i, i)), i), what+": less(a,a) is false")
	x.oblige(st, fr, "comparator-asymmetric", "", in, 0, forallIdx(n, implies(less(i, j), not(less(j, i))), i, j), what+": less(a,b) excludes less(b,a)")
	x.oblige(st, fr, "comparator-transitive", "", in, 0, forallIdx(n, implies(and(less(i, j), less(j, k)), less(i, k)), i, j, k), what+": less is transitive")
	inc := func(a, b string) string { return and(not(less(a, b)), not(less(b, a))) }
	x.oblige(st, fr, "comparator-equivalence", "", in, 0, forallIdx(n, implies(and(inc(i, j), inc(j, k)), inc(i, k)), i, j, k), what+": incomparability is transitive (strict weak order)")
}

// permute replaces the n elements at off.. of backing array arr (element type et) by a permutation
// of themselves; returns names of the permutation functions (new index -> old index and inverse).
func (x *Exec) permute(st *State, et types.Type, arr, off, n string) (pi, rho, sorted string) {
	name, srt := x.arrName(et)
	A := x.getArr(st, name, srt)
	es := x.sortOf(et)
	pi, rho = x.fresh("perm"), x.fresh("perminv")
	st.add("(declare-fun " + pi + " (Int) Int)")
	st.add("(declare-fun " + rho + " (Int) Int)")
	nb := x.declare(st, "sorted", "(Array Int "+es+")")
	B := x.declare(st, "unsorted", "(Array Int "+es+")") // a plain symbol, so that it can appear in patterns
	x.assume(st, eq(B, app("select", A, arr)))
	i := x.fresh("i")
	x.assume(st, "(forall (("+i+" Int)) (! (=> (and (<= 0 "+i+") (< "+i+" "+n+")) (and (<= 0 ("+pi+" "+i+")) (< ("+pi+" "+i+") "+n+") (= ("+rho+" ("+pi+" "+i+")) "+i+") (= (select "+nb+" (at "+off+" "+i+")) (select "+B+" (at "+off+" ("+pi+" "+i+")))))) :pattern (("+pi+" "+i+")) :pattern ((select "+nb+" (at "+off+" "+i+")))))")
	x.assume(st, "(forall (("+i+" Int)) (! (=> (and (<= 0 "+i+") (< "+i+" "+n+")) (and (<= 0 ("+rho+" "+i+")) (< ("+rho+" "+i+") "+n+") (= ("+pi+" ("+rho+" "+i+")) "+i+"))) :pattern (("+rho+" "+i+"))))")
	x.assume(st, "(forall (("+i+" Int)) (! (=> (or (< "+i+" "+off+") (>= "+i+" (+ "+off+" "+n+"))) (= (select "+nb+" "+i+") (select "+B+" "+i+"))) :pattern ((select "+nb+" "+i+"))))")
	// inverse direction, triggered by the old content
	x.assume(st, "(forall (("+i+" Int)) (! (=> (and (<= 0 "+i+") (< "+i+" "+n+")) (= (select "+B+" (at "+off+" "+i+")) (select "+nb+" (at "+off+" ("+rho+" "+i+"))))) :pattern ((select "+B+" (at "+off+" "+i+")))))")
	x.setArr(st, name, srt, app("store", A, arr, nb))
	x.sumsPreserved(st, et, B, nb, off, n)
	return pi, rho, nb
}

func sortSliceModel(stable bool) modelFn {
	return func(x *Exec, st *State, fr *Frame, in ssa.Instruction, fn *ssa.Function, args []Val, k callCont) {
		x.used("sort.Slice/SliceStable (result is a permutation of the input, ordered by less; requires less to be a strict weak order on the elements present)")
		ifc, ok := args[0].(*Iface)
		if !ok {
			bail("sort.Slice: slice argument of unknown dynamic type")
		}
		sl, ok := ifc.Dyn.Underlying().(*types.Slice)
		if !ok {
			bail("sort.Slice on %s", ifc.Dyn)
		}
		s := ifc.V.(Term).S
		et := sl.Elem()
		n := x.define(st, "n", "Int", app("s_len", s))
		arr := x.define(st, "arr", "Int", app("s_arr", s))
		off := x.define(st, "off", "Int", app("s_off", s))
		lessV := args[1]
		intT := types.Typ[types.Int]
		mk := func(state *State) func(i, j string) string {
			return func(i, j string) string {
				return x.callValPure(state, fr, lessV, []Val{Term{i, intT}, Term{j, intT}}).S
			}
		}
		// the comparator itself must be safe on every pair of valid indices
		x.safeOnIndices(st, fr, in, lessV, n, 2)
		pureOK := x.tryPure(func() { mk(st)("0", "0") })
		if !pureOK {
			// the comparator is not a loop-free pure function: only the permutation is known
			x.note("a sort comparator that is not loop-free is not evaluated: the result is only known to be a permutation of the input (" + posStr(x.fset, in.Pos()) + ")")
			x.frameCheck(st, fr, arr, in)
			x.permute(st, et, arr, off, n)
			k(st, nil)
			return
		}
		x.strictWeakOrder(st, fr, in, n, mk(st), "sort comparator")
		x.frameCheck(st, fr, arr, in)
		pi, _, _ := x.permute(st, et, arr, off, n)
		less2 := mk(st)
		i, j := x.fresh("i"), x.fresh("j")
		x.assume(st, "(forall (("+i+" Int) ("+j+" Int)) (=> (and (<= 0 "+i+") (< "+i+" "+j+") (< "+j+" "+n+")) "+not(less2(j, i))+"))")
		if stable {
			x.assume(st, "(forall (("+i+" Int) ("+j+" Int)) (=> (and (<= 0 "+i+") (< "+i+" "+j+") (< "+j+" "+n+") "+not(less2(i, j))+") (< ("+pi+" "+i+") ("+pi+" "+j+"))))")
		}
		k(st, nil)
	}
}

// safeOnIndices runs a callback once with fresh in-range indices so that its safety obligations
// (index bounds, nil dereferences) are generated.
func (x *Exec) safeOnIndices(st *State, fr *Frame, in ssa.Instruction, fv Val, n string, arity int) {
	if !x.safetyOn {
		return
	}
	st2 := st.clone()
	var args []Val
	for a := 0; a < arity; a++ {
		v := x.declare(st2, "idx", "Int")
		x.assume(st2, and(app("<=", "0", v), app("<", v, n)))
		args = append(args, Term{v, types.Typ[types.Int]})
	}
	fr2 := fr.clone()
	switch f := fv.(type) {
	case *Closure:
		x.callStatic(st2, fr2, in, f.Fn, f.Bind, args, func(*State, Val) {})
	case *StaticFn:
		x.callStatic(st2, fr2, in, f.Fn, nil, args, func(*State, Val) {})
	}
}

func sortSearchModel(x *Exec, st *State, fr *Frame, in ssa.Instruction, fn *ssa.Function, args []Val, k callCont) {
	x.used("sort.Search (least index in [0,n] at which the predicate holds; requires a monotone predicate)")
	n := args[0].(Term).S
	intT := types.Typ[types.Int]
	f := func(i string) string { return x.callValPure(st, fr, args[1], []Val{Term{i, intT}}).S }
	x.safeOnIndices(st, fr, in, args[1], n, 1)
	i, j := x.fresh("i"), x.fresh("j")
	x.oblige(st, fr, "search-monotone", "", in, 0, "(forall (("+i+" Int) ("+j+" Int)) (=> (and (<= 0 "+i+") (< "+i+" "+j+") (< "+j+" "+n+") "+f(i)+") "+f(j)+"))", "sort.Search predicate is monotone (false..., true...)")
	p := x.declare(st, "found", "Int")
	x.assume(st, and(app("<=", "0", p), app("<=", p, app("imax", n, "0"))))
	x.assume(st, "(forall (("+i+" Int)) (=> (and (<= 0 "+i+") (< "+i+" "+p+")) "+not(f(i))+"))")
	x.assume(st, implies(app("<", p, n), f(p)))
	k(st, Term{p, intT})
}

var _ = fmt.Sprint

// tryPure runs f and reports whether it completed without hitting an unsupported construct.
func (x *Exec) tryPure(f func()) (ok bool) {
	pe, p, so := x.pureEval, x.pure, x.safetyOn
	defer func() {
		if r := recover(); r != nil {
			if _, isU := r.(unsupported); isU {
				x.pureEval, x.pure, x.safetyOn = pe, p, so
				ok = false
				return
			}
			panic(r)
		}
	}()
	f()
	return true
}
