package main

// Trusted contract of container/heap, phrased over a ghost multiset of elements.
//
// For a heap object h (whose elements live in the slice named by its `heapview` declaration):
//   hcount(h, e)  number of occurrences of element value e           (ghost HM_<elem>[h][e])
//   hsize(h)      number of elements                                  (ghost HS[h])
//   HOK[h]        the collection is heap-ordered (set by heap.Init, kept by Push/Pop)
// heap.Init  requires pairwise distinct elements (obligation); hcount becomes 0/1 membership of the view.
// heap.Pop   requires a non-empty heap; removes and returns an element x with hcount(h,x) > 0 such
//            that no element is Less than x (when HOK); it is returned through the user's own Pop.
// heap.Push  runs the user's own Push (which may append or drop), then hcount(h,x) grows by the
//            number of appended copies (0 or 1).
// After every operation the order of the elements in the backing array is unspecified.
// Less must be a strict weak order on the elements present (obligations, on element values).

import (
	"go/types"

	"golang.org/x/tools/go/ssa"
)

func init() {
	models["container/heap.Init"] = heapInitModel
	models["container/heap.Pop"] = heapPopModel
	models["container/heap.Push"] = heapPushModel
}

type heapView struct {
	recv  *Iface
	ref   string
	slice Term
	et    types.Type
	field int // index of the slice field in the receiver struct, -1 when the receiver is *[]T
	decl  *heapViewInfo
}

func (x *Exec) heapViewOf(st *State, fr *Frame, h Val) heapView {
	ifc, ok := h.(*Iface)
	if !ok {
		bail("container/heap: receiver of unknown dynamic type")
	}
	key := types.TypeString(ifc.Dyn, func(*types.Package) string { return "" })
	hv, ok := x.heapViews[key]
	if !ok {
		bail("container/heap: no `heapview (%s) = ...` declaration in the contract file", key)
	}
	env := x.newEnv(st, nil, fr)
	env.fn = hv.pkg.Func("init")
	recv := ifc.V
	if t, ok := recv.(Term); ok {
		recv = Term{t.S, ifc.Dyn}
	}
	env.vars["self"] = recv
	t, ok := env.eval(hv.e).(Term)
	if !ok {
		bail("heapview must evaluate to a slice")
	}
	sl, ok := t.T.Underlying().(*types.Slice)
	if !ok {
		bail("heapview must evaluate to a slice, got %s", t.T)
	}
	out := heapView{recv: ifc, ref: refOf(x, ifc.V), slice: t, et: sl.Elem(), field: -1, decl: hv}
	if se, ok := hv.e.(*SelE); ok {
		pt := ifc.Dyn.Underlying().(*types.Pointer)
		out.field = fieldIndex(pt.Elem().Underlying().(*types.Struct), se.Name)
	}
	return out
}

func refOf(x *Exec, v Val) string {
	switch t := v.(type) {
	case Term:
		return t.S
	case *Place:
		if s, ok := x.placeTerm(t); ok {
			return s
		}
	}
	bail("container/heap: receiver is not a heap object")
	return ""
}

func (x *Exec) hmName(et types.Type) (string, string) {
	es := x.sortOf(et)
	n, s := "HM_"+sanitize(x.typeId(et)), "(Array Int (Array "+es+" Int))"
	if x.hmArrays == nil {
		x.hmArrays = map[string]string{}
	}
	x.hmArrays[n] = s
	return n, s
}

func (x *Exec) hcountTerm(st *State, et types.Type, h, e string) string {
	n, s := x.hmName(et)
	return app("select", app("select", x.getArr(st, n, s), h), e)
}

func (x *Exec) hsizeTerm(st *State, h string) string {
	return app("select", x.getArr(st, "HS", "(Array Int Int)"), h)
}

// lessOnElems evaluates the user's Less on two element values by placing them in a scratch copy of
// the heap object (references -7 / -8 are never allocated).
func (x *Exec) lessOnElems(st *State, fr *Frame, hv heapView) func(e1, e2 string) string {
	lessFn := x.methodOf(hv.recv.Dyn, "Less")
	intT := types.Typ[types.Int]
	es := x.sortOf(hv.et)
	return func(e1, e2 string) string {
		x.pureEval++
		defer func() { x.pureEval-- }()
		st2 := st.clone()
		an, as := x.arrName(hv.et)
		A := x.getArr(st2, an, as)
		scratch := app("store", app("store", "((as const (Array Int "+es+")) "+x.reg.zero(hv.et)+")", app("at", "0", "0"), e1), app("at", "0", "1"), e2)
		st2.heap[an] = app("store", A, "(- 8)", scratch)
		sl := "(mk_Slice (- 8) 0 2 2)"
		pt := hv.recv.Dyn.Underlying().(*types.Pointer)
		hn, hs := x.heapName(pt.Elem())
		H := x.getArr(st2, hn, hs)
		obj := sl
		if hv.field >= 0 {
			obj = x.updatePath(app("select", H, hv.ref), pt.Elem(), []int{hv.field}, sl)
		}
		st2.heap[hn] = app("store", H, "(- 7)", obj)
		return x.pureCall(st2, fr, lessFn, nil, []Val{Term{"(- 7)", hv.recv.Dyn}, Term{"0", intT}, Term{"1", intT}}).S
	}
}

func (x *Exec) heapSWO(st *State, fr *Frame, in ssa.Instruction, hv heapView, present func(e string) string, count func(e string) string) {
	less := x.lessOnElems(st, fr, hv)
	es := x.sortOf(hv.et)
	a, b, c := x.fresh("e"), x.fresh("e"), x.fresh("e")
	q := func(body string, vs ...string) string {
		s := "(forall ("
		var g []string
		for _, v := range vs {
			s += "(" + v + " " + es + ")"
			g = append(g, present(v))
		}
		return s + ") " + implies(and(g...), body) + ")"
	}
	// container/heap only ever compares two different positions: the order must be strict on distinct
	// element values, and irreflexive on a value that occurs more than once
	ne := func(p, r string) string { return not(eq(p, r)) }
	dup := func(v string) string { return app(">=", count(v), "2") }
	x.oblige(st, fr, "comparator-irreflexive", "", in, 0, q(implies(dup(a), not(less(a, a))), a), "heap Less(a,a) is false for a value present twice")
	x.oblige(st, fr, "comparator-asymmetric", "", in, 0, q(implies(and(ne(a, b), less(a, b)), not(less(b, a))), a, b), "heap Less(a,b) excludes Less(b,a) (a != b)")
	x.oblige(st, fr, "comparator-transitive", "", in, 0, q(implies(and(ne(a, b), ne(b, c), ne(a, c), less(a, b), less(b, c)), less(a, c)), a, b, c), "heap Less is transitive on distinct elements")
	inc := func(p, r string) string { return and(not(less(p, r)), not(less(r, p))) }
	x.oblige(st, fr, "comparator-equivalence", "", in, 0, q(implies(and(ne(a, b), ne(b, c), ne(a, c), inc(a, b), inc(b, c)), inc(a, c)), a, b, c), "heap Less: incomparability is transitive (strict weak order on distinct elements)")
}

// scramble replaces the content of the view's backing array by unspecified values.
func (x *Exec) scramble(st *State, hv heapView, s string) string {
	an, as := x.arrName(hv.et)
	A := x.getArr(st, an, as)
	nb := x.declare(st, "heaparr", "(Array Int "+x.sortOf(hv.et)+")")
	x.setArr(st, an, as, app("store", A, app("s_arr", s), nb))
	return nb
}

func (x *Exec) sizeFacts(st *State, hv heapView, h, n string) {
	es := x.sortOf(hv.et)
	e := x.fresh("e")
	hmN, hmS := x.hmName(hv.et)
	hm := app("select", x.getArr(st, hmN, hmS), h)
	x.assume(st, eq(x.hsizeTerm(st, h), n))
	x.assume(st, "(forall (("+e+" "+es+")) (! (>= (select "+hm+" "+e+") 0) :pattern ((select "+hm+" "+e+"))))")
	x.assume(st, "(forall (("+e+" "+es+")) (! (=> (> (select "+hm+" "+e+") 0) (>= "+n+" 1)) :pattern ((select "+hm+" "+e+"))))")
}

func heapInitModel(x *Exec, st *State, fr *Frame, in ssa.Instruction, fn *ssa.Function, args []Val, k callCont) {
	x.used("container/heap.Init/Push/Pop over a ghost multiset (see v_heapmodel.go): Pop returns a least present element, element order in the array is unspecified")
	hv := x.heapViewOf(st, fr, args[0])
	s, h := hv.slice.S, hv.ref
	n := x.define(st, "n", "Int", app("s_len", s))
	an, as := x.arrName(hv.et)
	B := app("select", x.getArr(st, an, as), app("s_arr", s))
	off := app("s_off", s)
	i, j := x.fresh("i"), x.fresh("j")
	x.oblige(st, fr, "heap-init-distinct", "", in, 0, forallIdx(n, implies(not(eq(i, j)), not(eq(app("select", B, app("at", off, i)), app("select", B, app("at", off, j))))), i, j), "heap.Init: elements are pairwise distinct")
	es := x.sortOf(hv.et)
	// ghost multiset := membership in the view
	cnt := x.declare(st, "hcount", "(Array "+es+" Int)")
	e := x.fresh("e")
	x.assume(st, "(forall (("+e+" "+es+")) (! (and (or (= (select "+cnt+" "+e+") 0) (= (select "+cnt+" "+e+") 1)) (= (= (select "+cnt+" "+e+") 1) (exists (("+i+" Int)) (and (<= 0 "+i+") (< "+i+" "+n+") (= (select "+B+" (at "+off+" "+i+")) "+e+"))))) :pattern ((select "+cnt+" "+e+"))))")
	x.assume(st, forallIdx(n, eq(app("select", cnt, app("select", B, app("at", off, i))), "1"), i))
	hmN, hmS := x.hmName(hv.et)
	x.setArr(st, hmN, hmS, app("store", x.getArr(st, hmN, hmS), h, cnt))
	x.setArr(st, "HS", "(Array Int Int)", app("store", x.getArr(st, "HS", "(Array Int Int)"), h, n))
	x.heapSWO(st, fr, in, hv, func(v string) string { return app(">", app("select", cnt, v), "0") }, func(v string) string { return app("select", cnt, v) })
	x.frameCheck(st, fr, app("s_arr", s), in)
	x.scramble(st, hv, s)
	x.setArr(st, "HOK", "(Array Int Bool)", app("store", x.getArr(st, "HOK", "(Array Int Bool)"), h, "true"))
	x.sizeFacts(st, hv, h, n)
	k(st, nil)
}

func heapPopModel(x *Exec, st *State, fr *Frame, in ssa.Instruction, fn *ssa.Function, args []Val, k callCont) {
	hv := x.heapViewOf(st, fr, args[0])
	s, h := hv.slice.S, hv.ref
	n := x.define(st, "n", "Int", app("s_len", s))
	x.safety(st, fr, "heap-pop-empty", in, 0, app(">=", n, "1"), "heap.Pop on a non-empty heap")
	es := x.sortOf(hv.et)
	hmN, hmS := x.hmName(hv.et)
	hm := x.define(st, "hm", "(Array "+es+" Int)", app("select", x.getArr(st, hmN, hmS), h))
	present := func(v string) string { return app(">", app("select", hm, v), "0") }
	x.assume(st, eq(x.hsizeTerm(st, h), n)) // link maintained by every heap operation
	x.heapSWO(st, fr, in, hv, present, func(v string) string { return app("select", hm, v) })
	x.frameCheck(st, fr, app("s_arr", s), in)
	// the removed element
	xe := x.declare(st, "popped", es)
	x.assumeTypeInvElem(st, xe, hv.et)
	x.assume(st, present(xe))
	less := x.lessOnElems(st, fr, hv)
	e := x.fresh("e")
	ok := app("select", x.getArr(st, "HOK", "(Array Int Bool)"), h)
	x.assume(st, implies(ok, "(forall (("+e+" "+es+")) (! (=> "+present(e)+" "+not(less(e, xe))+") :pattern ((select "+hm+" "+e+"))))"))
	// array order unspecified, except that the user's Pop will find x in the last position
	nb := x.scramble(st, hv, s)
	x.assume(st, eq(app("select", nb, app("at", app("s_off", s), app("-", n, "1"))), xe))
	x.setArr(st, hmN, hmS, app("store", x.getArr(st, hmN, hmS), h, app("store", hm, xe, app("-", app("select", hm, xe), "1"))))
	x.setArr(st, "HS", "(Array Int Int)", app("store", x.getArr(st, "HS", "(Array Int Int)"), h, app("-", n, "1")))
	popFn := x.methodOf(hv.recv.Dyn, "Pop")
	x.callStatic(st, fr, in, popFn, nil, []Val{hv.recv.V}, func(st2 *State, res Val) {
		hv2 := x.heapViewOf(st2, fr, args[0])
		n2 := app("s_len", hv2.slice.S)
		x.oblige(st2, fr, "heap-user-pop", "", in, 0, eq(n2, app("-", n, "1")), "the heap type's own Pop removes exactly the last element")
		x.sizeFacts(st2, hv2, h, n2)
		k(st2, res)
	})
}

func heapPushModel(x *Exec, st *State, fr *Frame, in ssa.Instruction, fn *ssa.Function, args []Val, k callCont) {
	ifc, ok := args[0].(*Iface)
	if !ok {
		bail("container/heap.Push: receiver of unknown dynamic type")
	}
	hv0 := x.heapViewOf(st, fr, args[0])
	n0 := x.define(st, "n", "Int", app("s_len", hv0.slice.S))
	h := hv0.ref
	x.assume(st, eq(x.hsizeTerm(st, h), n0))
	xi, ok := args[1].(*Iface)
	if !ok {
		bail("container/heap.Push: pushed value of unknown dynamic type")
	}
	xe := x.toTerm(st, xi.V, hv0.et).S
	pushFn := x.methodOf(ifc.Dyn, "Push")
	x.callStatic(st, fr, in, pushFn, nil, []Val{ifc.V, args[1]}, func(st2 *State, _ Val) {
		hv := x.heapViewOf(st2, fr, args[0])
		s := hv.slice.S
		n := x.define(st2, "n", "Int", app("s_len", s))
		added := x.define(st2, "added", "Int", app("-", n, n0))
		x.oblige(st2, fr, "heap-user-push", "", in, 0, or(eq(added, "0"), eq(added, "1")), "the heap type's own Push appends the element or leaves the heap unchanged")
		es := x.sortOf(hv.et)
		hmN, hmS := x.hmName(hv.et)
		hm := x.define(st2, "hm", "(Array "+es+" Int)", app("select", x.getArr(st2, hmN, hmS), h))
		x.setArr(st2, hmN, hmS, app("store", x.getArr(st2, hmN, hmS), h, app("store", hm, xe, app("+", app("select", hm, xe), added))))
		x.setArr(st2, "HS", "(Array Int Int)", app("store", x.getArr(st2, "HS", "(Array Int Int)"), h, n))
		hm2 := app("select", x.getArr(st2, hmN, hmS), h)
		x.heapSWO(st2, fr, in, hv, func(v string) string { return app(">", app("select", hm2, v), "0") }, func(v string) string { return app("select", hm2, v) })
		x.frameCheck(st2, fr, app("s_arr", s), in)
		x.scramble(st2, hv, s)
		x.sizeFacts(st2, hv, h, n)
		k(st2, nil)
	})
}

func (x *Exec) assumeTypeInvElem(st *State, v string, T types.Type) {
	x.assumeTypeInv(st, v, T)
}
