package main

import (
	"go/token"
	"fmt"
	"go/types"
	"math/big"
	"strings"

	"golang.org/x/tools/go/ssa"
)

type SpecEnv struct {
	x          *Exec
	st         *State
	old        *State
	loopPre    *State
	anchorPos  token.Pos
	fr         *Frame
	fn         *ssa.Function
	vars       map[string]Val
	entryAlloc string
	inOld      bool
	depth      int
	curLoop    *loopInfo
	freeCells  map[string]*Cell // captured variables of a function literal, by name
}

func (x *Exec) newEnv(st, old *State, fr *Frame) *SpecEnv {
	e := &SpecEnv{x: x, st: st, old: old, fr: fr, vars: map[string]Val{}}
	if fr != nil {
		e.fn = fr.fn
		e.entryAlloc = fr.entryAlloc
	}
	return e
}

func (e *SpecEnv) child() *SpecEnv {
	n := *e
	n.vars = make(map[string]Val, len(e.vars)+2)
	for k, v := range e.vars {
		n.vars[k] = v
	}
	return &n
}

func (e *SpecEnv) bindResults(fn *ssa.Function, res []Val) {
	sig := fn.Signature
	for i := 0; i < sig.Results().Len() && i < len(res); i++ {
		if n := sig.Results().At(i).Name(); n != "" && n != "_" {
			e.vars[n] = res[i]
		}
		e.vars[fmt.Sprintf("result%d", i)] = res[i]
		if i == sig.Results().Len()-1 && isErrorType(sig.Results().At(i).Type()) {
			if _, taken := e.vars["err"]; !taken {
				e.vars["err"] = res[i]
			}
		}
	}
	if len(res) > 0 {
		e.vars["result"] = res[0]
	}
}

func (e *SpecEnv) evalBool(ex Expr) string {
	v := e.eval(ex)
	t, ok := v.(Term)
	if !ok {
		bail("spec: expected boolean, got %T in %s", v, exprString(ex))
	}
	return t.S
}

// evalRef evaluates a modifies expression to an object reference (pointer, map, or the backing
// array of a slice).
func (e *SpecEnv) evalRef(ex Expr) string {
	if ea, ok := ex.(*EachE); ok {
		ch := e.child()
		ch.vars[ea.Var] = Term{"%R%", intT}
		return "@PRED@" + ch.evalBool(ea.Body)
	}
	if ix, ok := ex.(*IndexE); ok {
		if id, ok := ix.I.(*Ident); ok && id.Name == "_" {
			ex = ix.X
		}
	}
	if sl, ok := ex.(*SliceE); ok && sl.Lo == nil && sl.Hi == nil {
		ex = sl.X
	}
	if id, ok := ex.(*Ident); ok && e.fr != nil {
		if _, shadowed := e.vars[id.Name]; !shadowed {
			// a local that lives on the heap (array or struct whose address is taken): the object is the local itself
			for _, b := range e.fr.fn.Blocks {
				for _, in := range b.Instrs {
					if a, ok := in.(*ssa.Alloc); ok && a.Comment == id.Name {
						if _, isArr := a.Type().(*types.Pointer).Elem().Underlying().(*types.Array); isArr {
							switch pv := e.fr.regs[a].(type) {
							case Term:
								return pv.S
							case *Place:
								if pv.ArrayPtr {
									return pv.Ref
								}
								if s, ok := e.x.placeTerm(pv); ok {
									return s
								}
							}
						}
					}
				}
			}
		}
	}
	v := e.eval(ex)
	switch t := v.(type) {
	case Term:
		if t.T != nil {
			if _, ok := t.T.Underlying().(*types.Slice); ok {
				return app("s_arr", t.S)
			}
		}
		return t.S
	case *Place:
		if s, ok := e.x.placeTerm(t); ok {
			return s
		}
	case *Iface:
		if p, ok := t.V.(*Place); ok {
			if s, ok := e.x.placeTerm(p); ok {
				return s
			}
		}
		if tt, ok := t.V.(Term); ok {
			return tt.S
		}
	}
	bail("spec: modifies expression %s is not an object", exprString(ex))
	return ""
}

var intT = types.Typ[types.Int]
var boolT = types.Typ[types.Bool]
var realT = types.Typ[types.Float64]
var strT = types.Typ[types.String]

func (e *SpecEnv) isReal(v Val) bool {
	t, ok := v.(Term)
	return ok && t.T != nil && e.x.sortOf(t.T) == "Real"
}

func (e *SpecEnv) coerce(a, b Val) (Term, Term) {
	ta, tb := e.term(a), e.term(b)
	ra, rb := e.isReal(ta), e.isReal(tb)
	if ra && !rb && tb.T != nil && e.x.sortOf(tb.T) == "Int" {
		tb = Term{toReal(tb.S), ta.T}
	} else if rb && !ra && ta.T != nil && e.x.sortOf(ta.T) == "Int" {
		ta = Term{toReal(ta.S), tb.T}
	}
	return ta, tb
}

func toReal(s string) string {
	if isNumeral(s) {
		return s + ".0"
	}
	return app("to_real", s)
}

func (e *SpecEnv) term(v Val) Term {
	switch t := v.(type) {
	case Term:
		return t
	case *Place:
		if s, ok := e.x.placeTerm(t); ok {
			return Term{s, types.NewPointer(t.T)}
		}
	case *FuncParam:
		return Term{ite(t.Nil, "0", "1"), intT}
	case *Iface:
		// known dynamic type: non-nil; expose payload when it is a reference
		if p, ok := t.V.(*Place); ok {
			if s, ok := e.x.placeTerm(p); ok {
				return Term{s, types.NewPointer(p.T)}
			}
		}
		if tt, ok := t.V.(Term); ok {
			return tt
		}
	case *Closure, *StaticFn, *Noop:
		return Term{"1", intT}
	}
	if p, ok := v.(*Place); ok && p.Cell != nil {
		bail("spec: address of local %s (path %v) is not a term", p.Cell.name, p.Path)
	}
	bail("spec: value %T is not a term", v)
	return Term{}
}

func (e *SpecEnv) state() *State { return e.st }

func (e *SpecEnv) eval(ex Expr) Val {
	x := e.x
	// specification terms may mention bound variables: never name sub-terms or add assumptions
	x.pure++
	defer func() { x.pure-- }()
	switch n := ex.(type) {
	case *IntLit:
		return Term{n.V, intT}
	case *FloatLit:
		r, _ := new(big.Rat).SetString(n.V)
		return Term{ratLit(r), realT}
	case *StringLit:
		return Term{x.reg.strLit(n.V), strT}
	case *BoolLit:
		if n.V {
			return Term{"true", boolT}
		}
		return Term{"false", boolT}
	case *Ident:
		return e.ident(n.Name)
	case *Unary:
		switch n.Op {
		case "!":
			return Term{not(e.evalBool(n.X)), boolT}
		case "-":
			t := e.term(e.eval(n.X))
			return Term{app("-", t.S), t.T}
		case "*":
			v := e.eval(n.X)
			return x.load(e.st, nil, x.asPlace(v, nil), nil)
		}
	case *Binary:
		return e.binary(n)
	case *CondE:
		c := e.evalBool(n.C)
		if c == "true" {
			return e.eval(n.A)
		}
		if c == "false" {
			return e.eval(n.B)
		}
		a, b := e.coerce(e.eval(n.A), e.eval(n.B))
		return Term{ite(c, a.S, b.S), a.T}
	case *Quant:
		ch := e.child()
		var binds []string
		var guards []string
		for _, b := range n.Vars {
			T := x.resolveType(e.fn, b.Type)
			nm := "q_" + sanitize(b.Name) + "_" + fmt.Sprint(x.nameCtr)
			x.nameCtr++
			binds = append(binds, "("+nm+" "+x.sortOf(T)+")")
			ch.vars[b.Name] = Term{nm, T}
			// no guard for string-sorted variables: clauses are proved and assumed for every
			// value of the abstract string sort alike
		}
		body := ch.evalBool(n.Body)
		if n.Forall {
			inner := implies(and(guards...), body)
			if pat := indexPattern(inner, ch, n.Vars); pat != "" && strings.Contains(inner, "(exists ") {
				return Term{"(forall (" + strings.Join(binds, " ") + ") (! " + inner + " :pattern (" + pat + ")))", boolT}
			}
			return Term{"(forall (" + strings.Join(binds, " ") + ") " + inner + ")", boolT}
		}
		// (an explicit trigger on existentials was tried and withdrawn: it made E-matching miss witnesses the
		// solver's own trigger selection finds, see DESIGN.md section 8.3)
		return Term{"(exists (" + strings.Join(binds, " ") + ") " + and(append(guards, body)...) + ")", boolT}
	case *LetE:
		ch := e.child()
		ch.vars[n.Name] = e.eval(n.Val)
		return ch.eval(n.Body)
	case *SelE:
		if id, ok := n.X.(*Ident); ok {
			if v, ok := e.qualified(id.Name, n.Name); ok {
				return v
			}
		}
		return e.sel(e.eval(n.X), n.Name)
	case *IndexE:
		return e.index(e.eval(n.X), e.eval(n.I))
	case *SliceE:
		t := e.term(e.eval(n.X))
		lo, hi := "0", app("s_len", t.S)
		if n.Lo != nil {
			lo = e.term(e.eval(n.Lo)).S
		}
		if n.Hi != nil {
			hi = e.term(e.eval(n.Hi)).S
		}
		return Term{app("mk_Slice", app("s_arr", t.S), app("+", app("s_off", t.S), lo), app("-", hi, lo), app("-", app("s_cap", t.S), lo)), t.T}
	case *TypeAssertE:
		v := e.eval(n.X)
		T := x.resolveType(e.fn, n.Type)
		switch i := v.(type) {
		case *Iface:
			return i.V
		case Term:
			srt := x.sortOf(T)
			fn := "unbox_" + sortId(srt)
			x.reg.declFun(fn, "(Int) "+srt)
			return Term{app(fn, i.S), T}
		}
		return v
	case *CallE:
		return e.call(n)
	}
	bail("spec: cannot evaluate %s", exprString(ex))
	return nil
}

func (e *SpecEnv) ident(name string) Val {
	x := e.x
	if v, ok := e.vars[name]; ok {
		return v
	}
	if c, ok := e.freeCells[name]; ok {
		if v, ok := e.st.cells[c]; ok {
			return v
		}
	}
	switch name {
	case "nil":
		return Term{"0", types.Typ[types.UntypedNil]}
	case "MaxInt":
		return Term{"9223372036854775807", intT}
	case "MinInt":
		return Term{"(- 9223372036854775808)", intT}
	case "MaxInt32":
		return Term{"2147483647", intT}
	case "NEVER":
		return Term{"(- 1)", intT}
	case "allocEntry":
		return Term{e.entryAlloc, intT}
	}
	// local variable / parameter cell of the frame
	if e.fr != nil {
		if e.inOld {
			if v, ok := e.fr.params[name]; ok {
				return v
			}
		}
		if c := e.findCell(name); c != nil {
			if v, ok := e.st.cells[c]; ok {
				return v
			}
			bail("spec: variable %s has no value at this point", name)
		}
		if v, ok := e.fr.params[name]; ok {
			return v
		}
		// heap-allocated struct local (escaping `x := T{}` / `&T{}`): its address
		var declared *ssa.Alloc
		for _, b := range e.fr.fn.Blocks {
			for _, in := range b.Instrs {
				if a, ok := in.(*ssa.Alloc); ok && a.Comment == name {
					declared = a
					if v, ok := e.fr.regs[a]; ok {
						return v
					}
				}
			}
		}
		if declared != nil {
			// the variable exists in the function but has not been reached on this path: its value is
			// unconstrained (a clause that depends on it is provable only where its guard is false)
			return x.havocVal(e.st, "unreached_"+sanitize(name), declared.Type().(*types.Pointer).Elem())
		}
	}
	// package-level object
	if e.fn != nil {
		if pkg := pkgOf(e.fn); pkg != nil {
			if m, ok := pkg.Members[name]; ok {
				switch m := m.(type) {
				case *ssa.NamedConst:
					return Term{constTerm(x.reg, m.Value.Value, m.Type()), m.Type()}
				case *ssa.Global:
					c := x.globalCell(e.st, m)
					return e.st.cells[c]
				}
			}
		}
	}
	bail("spec: unknown identifier %q", name)
	return nil
}

// qualified resolves pkg.Name for a package imported by the function's package (package-level
// variables and constants), unless pkg is a local name.
func (e *SpecEnv) qualified(pkgName, name string) (Val, bool) {
	if _, shadow := e.vars[pkgName]; shadow || e.fn == nil {
		return nil, false
	}
	if e.fr != nil {
		if _, isParam := e.fr.params[pkgName]; isParam {
			return nil, false
		}
		if e.findCell(pkgName) != nil {
			return nil, false
		}
	}
	p := pkgOf(e.fn)
	if p == nil {
		return nil, false
	}
	for pass := 0; pass < 2; pass++ {
		for _, imp := range p.Pkg.Imports() {
			if (pass == 0 && imp.Name() != pkgName) || (pass == 1 && !strings.HasSuffix(pkgName, imp.Name())) {
				continue
			}
			sp := e.x.prog.Package(imp)
			if sp == nil {
				continue
			}
			switch m := sp.Members[name].(type) {
			case *ssa.NamedConst:
				return Term{constTerm(e.x.reg, m.Value.Value, m.Type()), m.Type()}, true
			case *ssa.Global:
				c := e.x.globalCell(e.st, m)
				return e.st.cells[c], true
			}
		}
	}
	return nil, false
}

func pkgOf(fn *ssa.Function) *ssa.Package {
	for f := fn; f != nil; f = f.Parent() {
		if f.Pkg != nil {
			return f.Pkg
		}
		if f.Origin() != nil && f.Origin().Pkg != nil {
			return f.Origin().Pkg
		}
	}
	return nil
}

// findCell resolves a source variable name to its cell: name or name#k (k-th alloc of that name).
func (e *SpecEnv) findCell(name string) *Cell {
	want := 1
	if i := strings.Index(name, "#"); i >= 0 {
		fmt.Sscan(name[i+1:], &want)
		name = name[:i]
	}
	fr := e.fr
	if fr == nil {
		return nil
	}
	if name == "rangeindex" && e.curLoop != nil {
		// the hidden index of the range loop this clause belongs to
		for _, in := range e.curLoop.header.Instrs {
			if st, ok := in.(*ssa.Store); ok {
				if a, ok := st.Addr.(*ssa.Alloc); ok && a.Comment == "rangeindex" {
					return fr.allocCell[a]
				}
			}
		}
	}
	if e.anchorPos.IsValid() && e.curLoop == nil {
		// a clause anchored at a source position (assert before call): a name means the variable that is
		// in scope at that position, as the Go type checker resolves it
		if pkg := pkgOf(fr.fn); pkg != nil {
			if sc := pkg.Pkg.Scope().Innermost(e.anchorPos); sc != nil {
				if _, obj := sc.LookupParent(name, e.anchorPos); obj != nil {
					if v, ok := obj.(*types.Var); ok {
						for _, b := range fr.fn.Blocks {
							for _, in := range b.Instrs {
								if a, ok := in.(*ssa.Alloc); ok && a.Comment == name && a.Pos() == v.Pos() {
									if c, ok := fr.allocCell[a]; ok {
										return c
									}
								}
							}
						}
					}
				}
			}
		}
	}
	if e.curLoop != nil && !strings.Contains(name, "#") {
		// inside a loop clause a name means the innermost declaration in scope: the last variable of
		// that name declared in a block dominating the loop header (or inside the loop)
		var best *ssa.Alloc
		for _, b := range fr.fn.Blocks {
			if !(b.Dominates(e.curLoop.header) || e.curLoop.body[b]) {
				continue
			}
			for _, in := range b.Instrs {
				if a, ok := in.(*ssa.Alloc); ok && a.Comment == name {
					if _, live := fr.allocCell[a]; live {
						if best == nil || !e.curLoop.body[b] {
							best = a
						}
					}
				}
			}
		}
		if best != nil {
			return fr.allocCell[best]
		}
	}
	k := 0
	for _, b := range fr.fn.Blocks {
		for _, in := range b.Instrs {
			if a, ok := in.(*ssa.Alloc); ok && a.Comment == name {
				k++
				if k == want {
					if c, ok := fr.allocCell[a]; ok {
						return c
					}
					return nil
				}
			}
		}
	}
	// closures: free variables by name
	for i, fv := range fr.fn.FreeVars {
		if fv.Name() == name && i < len(fr.free) {
			if p, ok := fr.free[i].(*Place); ok && p.Kind == pkCell && len(p.Path) == 0 {
				return p.Cell
			}
		}
	}
	return nil
}

func (e *SpecEnv) sel(v Val, name string) Val {
	x := e.x
	if i, ok := v.(*Iface); ok {
		v = i.V
	}
	switch t := v.(type) {
	case *Place:
		if t.Kind == pkCell && len(t.Path) == 0 {
			// pointer to a local struct
			cv := e.st.cells[t.Cell]
			return e.sel(cv, name)
		}
		st, ok := t.T.Underlying().(*types.Struct)
		if !ok {
			bail("spec: .%s on pointer to %s", name, t.T)
		}
		path, FT := fieldPath(st, name)
		if path == nil {
			bail("spec: no field %s", name)
		}
		np := *t
		np.Path = append(append([]int(nil), t.Path...), path...)
		np.T = FT
		return x.load(e.st, nil, &np, nil)
	case Term:
		T := t.T
		if T == nil {
			return Term{x.declare(e.st, "undef", "Int"), nil} // field of an undefined value
		}
		if pt, ok := T.Underlying().(*types.Pointer); ok {
			return e.sel(&Place{Kind: pkHeap, Ref: t.S, Base: pt.Elem(), T: pt.Elem()}, name)
		}
		st, ok := T.Underlying().(*types.Struct)
		if !ok {
			bail("spec: .%s on %s", name, T)
		}
		path, _ := fieldPath(st, name)
		if path == nil {
			bail("spec: no field %s", name)
		}
		s, FT := x.project(t.S, T, path)
		return Term{s, FT}
	}
	bail("spec: .%s on %T", name, v)
	return nil
}

// fieldPath finds a field by name, looking through embedded (value) structs for promoted fields.
func fieldPath(st *types.Struct, name string) ([]int, types.Type) {
	for i := 0; i < st.NumFields(); i++ {
		if st.Field(i).Name() == name {
			return []int{i}, st.Field(i).Type()
		}
	}
	for i := 0; i < st.NumFields(); i++ {
		f := st.Field(i)
		if !f.Embedded() {
			continue
		}
		if sub, ok := f.Type().Underlying().(*types.Struct); ok {
			if p, T := fieldPath(sub, name); p != nil {
				return append([]int{i}, p...), T
			}
		}
	}
	return nil, nil
}

func fieldIndex(st *types.Struct, name string) int {
	for i := 0; i < st.NumFields(); i++ {
		if st.Field(i).Name() == name {
			return i
		}
	}
	bail("spec: no field %s", name)
	return -1
}

func (e *SpecEnv) index(xv, iv Val) Val {
	x := e.x
	if p, ok := xv.(*Place); ok && p.ArrayPtr {
		// a local array variable ([N]T): element read
		i := e.term(iv)
		return x.load(e.st, nil, &Place{Kind: pkElem, Ref: p.Ref, Idx: i.S, Base: p.Base, T: p.Base}, nil)
	}
	t := e.term(xv)
	i := e.term(iv)
	if t.T == nil {
		return Term{x.declare(e.st, "undef", "Int"), nil}
	}
	switch u := t.T.Underlying().(type) {
	case *types.Slice:
		name, srt := x.arrName(u.Elem())
		arr := x.getArr(e.st, name, srt)
		return Term{app("select", app("select", arr, app("s_arr", t.S)), app("at", app("s_off", t.S), i.S)), u.Elem()}
	case *types.Map:
		v, _ := x.mapGet(e.st, u, t.S, i.S)
		return Term{v, u.Elem()}
	case *types.Array:
		return Term{app("select", t.S, i.S), u.Elem()}
	}
	bail("spec: index on %s", t.T)
	return nil
}

func (e *SpecEnv) binary(n *Binary) Val {
	x := e.x
	switch n.Op {
	case "&&":
		a := e.evalBool(n.X)
		if a == "false" {
			return Term{"false", boolT}
		}
		return Term{and(a, e.evalBool(n.Y)), boolT}
	case "||":
		a := e.evalBool(n.X)
		if a == "true" {
			return Term{"true", boolT}
		}
		return Term{or(a, e.evalBool(n.Y)), boolT}
	case "==>":
		a := e.evalBool(n.X)
		if a == "false" {
			return Term{"true", boolT}
		}
		return Term{implies(a, e.evalBool(n.Y)), boolT}
	case "<==>":
		return Term{eq(e.evalBool(n.X), e.evalBool(n.Y)), boolT}
	case "in":
		k := e.term(e.eval(n.X))
		m := e.term(e.eval(n.Y))
		mt, ok := m.T.Underlying().(*types.Map)
		if !ok {
			bail("spec: `in` needs a map, got %s", m.T)
		}
		return Term{app("select", x.mapDom(e.st, mt, m.S), k.S), boolT}
	case "==", "!=":
		a, b := e.eval(n.X), e.eval(n.Y)
		var s string
		if isNilTerm(b) || isNilTerm(a) {
			s = e.eqNil(a, b)
		} else {
			ta, tb := e.coerce(a, b)
			s = foldCmp("==", ta.S, tb.S)
		}
		if n.Op == "!=" {
			s = not(s)
		}
		return Term{s, boolT}
	}
	a, b := e.coerce(e.eval(n.X), e.eval(n.Y))
	switch n.Op {
	case "<", "<=", ">", ">=":
		return Term{foldCmp(n.Op, a.S, b.S), boolT}
	case "+", "-", "*":
		return Term{app(n.Op, a.S, b.S), a.T}
	case "/":
		if e.isReal(a) {
			return Term{app("/", a.S, b.S), a.T}
		}
		return Term{app("godiv", a.S, b.S), a.T}
	case "%":
		return Term{app("gomod", a.S, b.S), a.T}
	}
	bail("spec: operator %s", n.Op)
	return nil
}

func (e *SpecEnv) eqNil(a, b Val) string {
	v := a
	if isNilTerm(a) && !isNilTerm(b) {
		v = b
	}
	if n, ok := e.x.nilness(v); ok {
		return n
	}
	t := e.term(v)
	if t.T != nil {
		if _, ok := t.T.Underlying().(*types.Slice); ok {
			return eq(app("s_arr", t.S), "0")
		}
	}
	return eq(t.S, "0")
}

func (e *SpecEnv) call(n *CallE) Val {
	x := e.x
	argT := func(i int) Term { return e.term(e.eval(n.Args[i])) }
	switch n.Fun {
	case "old":
		if e.old == nil {
			bail("spec: old() not available here")
		}
		ch := e.child()
		ch.st = e.old
		ch.inOld = true
		return ch.eval(n.Args[0])
	case "pre": // value at loop entry (before the first iteration)
		if e.loopPre == nil {
			bail("spec: pre() only inside loop invariants")
		}
		ch := e.child()
		ch.st = e.loopPre
		return ch.eval(n.Args[0])
	case "len":
		v := e.eval(n.Args[0])
		t := e.term(v)
		if t.T == nil { // value of an undefined expression (e.g. res() of a call that did not happen)
			return Term{x.declare(e.st, "undef", "Int"), intT}
		}
		switch t.T.Underlying().(type) {
		case *types.Slice:
			return Term{app("s_len", t.S), intT}
		case *types.Map:
			return Term{x.mapCard(e.st, t.S), intT}
		case *types.Basic:
			return Term{app("strlen", t.S), intT}
		}
		bail("spec: len of %s", t.T)
	case "cap":
		return Term{app("s_cap", argT(0).S), intT}
	case "arr":
		return Term{app("s_arr", argT(0).S), intT}
	case "off":
		return Term{app("s_off", argT(0).S), intT}
	case "card":
		return Term{x.mapCard(e.st, argT(0).S), intT}
	case "msum":
		m := argT(0)
		mt := m.T.Underlying().(*types.Map)
		return Term{x.mapSum(e.st, mt, m.S), mt.Elem()}
	case "min", "max":
		a, b := e.coerce(e.eval(n.Args[0]), e.eval(n.Args[1]))
		p := "i"
		if e.isReal(a) {
			p = "r"
		}
		return Term{app(p+n.Fun, a.S, b.S), a.T}
	case "real":
		return Term{toReal(argT(0).S), realT}
	case "trunc":
		return Term{app("trunc", argT(0).S), intT}
	case "roundhalf":
		return Term{app("roundhalf", argT(0).S), intT}
	case "listed": // listed(s, e): e is one of the elements the string s was joined from (strings.Join model)
		x.reg.declFun("str_listed", "(Int Int) Bool")
		return Term{app("str_listed", argT(0).S, argT(1).S), boolT}
	case "fresh": // object allocated after function entry
		r := e.evalRef(n.Args[0])
		return Term{and(app(">=", r, e.entryAlloc), app("<", r, e.st.allocCtr)), boolT}
	case "sinceloop": // object allocated after the enclosing loop was entered (loop clauses only)
		if e.loopPre == nil {
			bail("spec: sinceloop() outside a loop clause")
		}
		r := e.evalRef(n.Args[0])
		return Term{and(app(">=", r, e.loopPre.allocCtr), app("<", r, e.st.allocCtr)), boolT}
	case "allocated": // object exists in the state the expression is evaluated in
		r := e.evalRef(n.Args[0])
		return Term{and(app("<", "0", r), app("<", r, e.st.allocCtr)), boolT}
	case "ref":
		return Term{e.evalRef(n.Args[0]), intT}
	case "root":
		return Term{app("root", argT(0).S), intT}
	case "kind":
		return Term{app("kind", argT(0).S), intT}
	case "lower":
		return Term{app("str_lower", argT(0).S), strT}
	case "isnil":
		v := e.eval(n.Args[0])
		if s, ok := x.nilness(v); ok {
			return Term{s, boolT}
		}
		return Term{e.eqNil(v, Term{"0", nil}), boolT}
	case "fsum", "fsumr": // fsum(s, Field) / fsumr(s, Field, lo, hi): sum of s[i].Field over the slice / over lo <= i < hi
		sv := e.term(e.eval(n.Args[0]))
		sl, ok := sv.T.Underlying().(*types.Slice)
		if !ok {
			bail("spec: fsum needs a slice")
		}
		fld, ok := n.Args[1].(*Ident)
		if !ok {
			bail("spec: fsum(slice, FieldName[, lo, hi])")
		}
		fn := x.sumFunc(sl.Elem(), fld.Name)
		an, as := x.arrName(sl.Elem())
		arr := app("select", x.getArr(e.st, an, as), app("s_arr", sv.S))
		lo, hi := "0", app("s_len", sv.S)
		if n.Fun == "fsumr" {
			lo, hi = e.term(e.eval(n.Args[2])).S, e.term(e.eval(n.Args[3])).S
		}
		si := x.structInfo(sl.Elem())
		return Term{app(fn, arr, app("at", app("s_off", sv.S), lo), app("at", app("s_off", sv.S), hi)), si.ftypes[fieldIndex(si.st, fld.Name)]}
	case "hcount": // hcount(h, e): occurrences of element e in heap h (ghost multiset of container/heap)
		hv := e.heapOf(n.Args[0])
		return Term{x.hcountTerm(e.st, hv.et, hv.ref, e.term(e.eval(n.Args[1])).S), intT}
	case "hsize":
		hv := e.heapOf(n.Args[0])
		return Term{x.hsizeTerm(e.st, hv.ref), intT}
	case "hordered":
		hv := e.heapOf(n.Args[0])
		return Term{app("select", x.getArr(e.st, "HOK", "(Array Int Bool)"), hv.ref), boolT}
	case "seensum": // sum of the values visited so far by the map range of this loop
		if e.curLoop == nil || e.fr == nil {
			bail("spec: seensum() is only meaningful in the invariant of a map range loop")
		}
		for b := range e.curLoop.body {
			for _, in := range b.Instrs {
				if nx, ok := in.(*ssa.Next); ok {
					if it, ok := e.fr.regs[nx.Iter].(*RangeIter); ok && it.SeenSum != nil {
						if ri, ok := nx.Iter.(*ssa.Range); ok && !e.curLoop.body[ri.Block()] {
							return e.st.cells[it.SeenSum]
						}
					}
				}
			}
		}
		bail("spec: seensum() without an active numeric map range")
	case "seen": // seen(k): key already visited by the map range of the loop this clause belongs to
		if e.curLoop == nil || e.fr == nil {
			bail("spec: seen() is only meaningful in the invariant of a map range loop")
		}
		for b := range e.curLoop.body {
			for _, in := range b.Instrs {
				if nx, ok := in.(*ssa.Next); ok {
					if it, ok := e.fr.regs[nx.Iter].(*RangeIter); ok && it.Seen != nil {
						if ri, ok := nx.Iter.(*ssa.Range); ok && !e.curLoop.body[ri.Block()] {
							return Term{app("select", e.st.cells[it.Seen].(Term).S, argT(0).S), boolT}
						}
					}
				}
			}
		}
		bail("spec: seen() without an active map range")
	case "called":
		return Term{fmt.Sprint(len(e.events(n.Args[0]))), intT}
	case "res":
		ev := e.events(n.Args[0])
		if len(ev) == 0 {
			return e.undefined(n.Args[0], n.Args[1:], true)
		}
		i := 0
		if len(n.Args) > 1 {
			i = int(mustInt(n.Args[1]))
		}
		return ev[len(ev)-1].Res[i]
	case "arg":
		ev := e.events(n.Args[0])
		if len(ev) == 0 {
			return e.undefined(n.Args[0], n.Args[1:], false)
		}
		return ev[len(ev)-1].Args[mustInt(n.Args[1])]
	case "atcall": // atcall(f, e): e evaluated in the state right after the (last) call of f returned
		ev := e.events(n.Args[0])
		if len(ev) == 0 || ev[len(ev)-1].After == nil {
			// not called on this path: an unconstrained value (its sort is not known here; strings,
			// references and integers are all Int)
			return Term{x.declare(e.st, "undef", "Int"), nil}
		}
		ch := e.child()
		ch.st = ev[len(ev)-1].After
		return ch.eval(n.Args[1])
	case "before":
		a, b := e.events(n.Args[0]), e.events(n.Args[1])
		if len(a) == 0 || len(b) == 0 {
			return Term{"true", boolT}
		}
		if a[len(a)-1].Seq < b[0].Seq {
			return Term{"true", boolT}
		}
		return Term{"false", boolT}
	}
	if g, ok := x.ghosts[n.Fun]; ok {
		return e.ghostCall(g, n)
	}
	if u, ok := x.ufuns[n.Fun]; ok {
		// uninterpreted spec function (trusted to exist; constrained only by contracts)
		retT := x.resolveType(e.fn, u.Ret)
		var sig, args []string
		for i, p := range u.Params {
			sig = append(sig, x.sortOf(x.resolveType(e.fn, p.Type)))
			args = append(args, e.term(e.eval(n.Args[i])).S)
		}
		x.reg.declFun("uf_"+u.Name, "("+strings.Join(sig, " ")+") "+x.sortOf(retT))
		return Term{app("uf_"+u.Name, args...), retT}
	}
	bail("spec: unknown function %s", n.Fun)
	return nil
}

// undefined: res()/arg() of a function that was not called on this path is an unconstrained
// value (so a clause that depends on it is provable only where its guard is false).
func (e *SpecEnv) undefined(f Expr, idx []Expr, isRes bool) Val {
	x := e.x
	i := 0
	if len(idx) > 0 {
		i = int(mustInt(idx[0]))
	}
	if id, ok := f.(*Ident); ok {
		var fp *FuncParam
		if e.fr != nil {
			fp, _ = e.fr.params[id.Name].(*FuncParam)
		}
		if v, ok := e.vars[id.Name].(*FuncParam); ok {
			fp = v
		}
		if c, ok := e.freeCells[id.Name]; ok && fp == nil && e.st != nil {
			fp, _ = e.st.cells[c].(*FuncParam)
		}
		if fp != nil && fp.Sig != nil {
			tup := fp.Sig.Params()
			if isRes {
				tup = fp.Sig.Results()
			}
			if i < tup.Len() {
				return x.havocVal(e.st, "undef", tup.At(i).Type())
			}
		}
	}
	// a named function or method that was not called on this path: type the unconstrained value by its signature
	if sig := x.lookupCalleeSig(e.fn, exprString(f)); sig != nil {
		tup := sig.Params()
		if isRes {
			tup = sig.Results()
		} else if sig.Recv() != nil {
			i-- // arg 0 is the receiver
		}
		if i >= 0 && i < tup.Len() {
			return x.havocVal(e.st, "undef", tup.At(i).Type())
		}
	}
	return Term{x.declare(e.st, "undef", "Int"), nil}
}

// lookupCalleeSig resolves "Type.Method", "pkg.Func" or "Func" (as written in called()/res()/arg())
// in the package of fn and its imports.
func (x *Exec) lookupCalleeSig(fn *ssa.Function, name string) *types.Signature {
	var pkg *types.Package
	for f := fn; f != nil; f = f.Parent() {
		if f.Pkg != nil {
			pkg = f.Pkg.Pkg
			break
		}
		if f.Origin() != nil && f.Origin().Pkg != nil {
			pkg = f.Origin().Pkg.Pkg
			break
		}
	}
	if pkg == nil {
		return nil
	}
	scopes := []*types.Scope{pkg.Scope()}
	for _, imp := range pkg.Imports() {
		scopes = append(scopes, imp.Scope())
	}
	parts := strings.Split(name, ".")
	last := parts[len(parts)-1]
	for _, sc := range scopes {
		if len(parts) >= 2 {
			if o, ok := sc.Lookup(parts[len(parts)-2]).(*types.TypeName); ok {
				for _, T := range []types.Type{o.Type(), types.NewPointer(o.Type())} {
					ms := types.NewMethodSet(T)
					for k := 0; k < ms.Len(); k++ {
						if ms.At(k).Obj().Name() == last {
							if sig, ok := ms.At(k).Obj().Type().(*types.Signature); ok {
								return sig
							}
						}
					}
				}
			}
		}
		if o, ok := sc.Lookup(last).(*types.Func); ok && (len(parts) == 1 || sc != pkg.Scope() || parts[0] == pkg.Name()) {
			if sig, ok := o.Type().(*types.Signature); ok {
				return sig
			}
		}
	}
	return nil
}

// heapOf resolves a heap object expression (an interface value of known dynamic type, or a pointer).
func (e *SpecEnv) heapOf(ex Expr) heapView {
	v := e.eval(ex)
	switch t := v.(type) {
	case *Iface:
		return e.x.heapViewOf(e.st, e.fr, t)
	case Term:
		return e.x.heapViewOf(e.st, e.fr, &Iface{Dyn: t.T, V: t})
	case *Place:
		if s, ok := e.x.placeTerm(t); ok {
			pt := types.NewPointer(t.T)
			return e.x.heapViewOf(e.st, e.fr, &Iface{Dyn: pt, V: Term{s, pt}})
		}
	}
	bail("spec: %s is not a heap object", exprString(ex))
	return heapView{}
}

func mustInt(ex Expr) int64 {
	if l, ok := ex.(*IntLit); ok {
		var v int64
		fmt.Sscan(l.V, &v)
		return v
	}
	bail("spec: expected integer literal")
	return 0
}

func (e *SpecEnv) events(ex Expr) []*CallEvent {
	id, ok := ex.(*Ident)
	name := ""
	if ok {
		name = id.Name
	} else {
		name = exprString(ex)
	}
	var out []*CallEvent
	for _, ev := range e.st.trace {
		if ev.Callee == name {
			out = append(out, ev)
		}
	}
	return out
}

// ghostCall: non-recursive ghosts are macros evaluated in the current state; recursive ones are
// pure SMT functions (define-fun-rec).
func (e *SpecEnv) ghostCall(g *Ghost, n *CallE) Val {
	x := e.x
	if len(n.Args) != len(g.Params) {
		bail("spec: ghost %s expects %d arguments", g.Name, len(g.Params))
	}
	retT := x.resolveType(e.fn, g.Ret)
	if !g.Rec {
		if e.depth > 20 {
			bail("spec: ghost expansion too deep (recursive ghost must be declared `ghost rec`)")
		}
		ch := e.child()
		ch.depth = e.depth + 1
		for i, p := range g.Params {
			ch.vars[p.Name] = e.eval(n.Args[i])
		}
		v := ch.eval(g.Body)
		if t, ok := v.(Term); ok && t.T == nil {
			t.T = retT
			return t
		}
		return v
	}
	if !x.ghostDone[g.Name] {
		x.ghostDone[g.Name] = true
		ch := x.newEnv(&State{cells: map[*Cell]Val{}, heap: map[string]string{}}, nil, nil)
		ch.fn = e.fn
		var ps []string
		for _, p := range g.Params {
			T := x.resolveType(e.fn, p.Type)
			ps = append(ps, "("+p.Name+"_g "+x.sortOf(T)+")")
			ch.vars[p.Name] = Term{p.Name + "_g", T}
		}
		body := ch.term(ch.eval(g.Body))
		x.reg.ghostDefs = append(x.reg.ghostDefs, "(define-fun-rec "+g.Name+" ("+strings.Join(ps, " ")+") "+x.sortOf(retT)+" "+body.S+")")
	}
	args := []string{}
	for i := range g.Params {
		args = append(args, e.term(e.eval(n.Args[i])).S)
	}
	return Term{app(g.Name, args...), retT}
}

func foldCmp(op, a, b string) string {
	x, okx := numeral(a)
	y, oky := numeral(b)
	if okx && oky {
		var r bool
		switch op {
		case "==":
			r = x == y
		case "<":
			r = x < y
		case "<=":
			r = x <= y
		case ">":
			r = x > y
		case ">=":
			r = x >= y
		}
		if r {
			return "true"
		}
		return "false"
	}
	if op == "==" {
		return eq(a, b)
	}
	return app(op, a, b)
}

// indexPattern builds an explicit trigger for a universally quantified clause whose integer
// variables are used as slice indices: one `(at off v)` term per variable. Returns "" when some
// variable has no such term (the solver then chooses triggers itself).
func indexPattern(body string, ch *SpecEnv, vars []Bound) string {
	var pats []string
	for _, b := range vars {
		v, ok := ch.vars[b.Name].(Term)
		if !ok {
			return ""
		}
		needle := " " + v.S + ")"
		found := ""
		for idx := 0; idx < len(body); {
			k := strings.Index(body[idx:], needle)
			if k < 0 {
				break
			}
			end := idx + k + len(needle)
			// walk back to the matching "(at "
			depth := 0
			start := -1
			for j := end - 1; j >= 0; j-- {
				if body[j] == ')' {
					depth++
				} else if body[j] == '(' {
					depth--
					if depth == 0 {
						start = j
						break
					}
				}
			}
			if start >= 0 && strings.HasPrefix(body[start:], "(at ") {
				found = body[start:end]
				// prefer the enclosing array read `(select ARR (at off v))`: it does not match the
				// same index under a different array version, which avoids matching loops
				d := 0
				for j := start - 1; j >= 0; j-- {
					if body[j] == ')' {
						d++
					} else if body[j] == '(' {
						if d == 0 {
							if strings.HasPrefix(body[j:], "(select ") && end < len(body) && body[end] == ')' {
								found = body[j : end+1]
							}
							break
						}
						d--
					}
				}
				break
			}
			idx = end
		}
		if found == "" {
			return ""
		}
		pats = append(pats, found)
	}
	return strings.Join(pats, " ")
}
