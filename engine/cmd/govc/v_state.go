package main

import (
	"fmt"
	"go/token"
	"go/types"
	"strings"

	"golang.org/x/tools/go/ssa"
)

// ---------- values ----------

type Val interface{}

// Term is an SMT term of the sort of Go type T.
type Term struct {
	S string
	T types.Type
}

type Cell struct {
	id   int
	name string
	T    types.Type
}

type placeKind int

const (
	pkCell placeKind = iota
	pkHeap           // object in H_<sort>[Ref]
	pkElem           // element Idx of backing array A_<sort>[Ref]
)

// Place is a pointer value: root object + field path.
type Place struct {
	Kind placeKind
	Cell *Cell
	Ref  string
	Idx  string
	Base types.Type // type of the root object (cell content / heap object / array element)
	Path []int
	T    types.Type // type of the content addressed
	// ArrayPtr: pointer to a whole backing array ([N]T allocated by the compiler)
	ArrayPtr bool
	ArrLen   int64
}

type Closure struct {
	Fn   *ssa.Function
	Bind []Val
}

type StaticFn struct{ Fn *ssa.Function }

// FuncParam is an abstract function value (a function-typed parameter or unknown callee).
type FuncParam struct {
	Name string
	Sig  *types.Signature
	Nil  string // Bool term: is this function value nil
}

// Noop is a function value whose call has no effect (context cancel functions).
type Noop struct{}

// Iface is an interface value whose dynamic type is statically known on this path.
type Iface struct {
	Dyn types.Type
	V   Val
}

type Tuple []Val

// RangeIter is the value of an ssa.Range instruction.
type RangeIter struct {
	Map   Val
	Seen  *Cell // ghost: keys already visited (Array K Bool)
	MapT  *types.Map
	IsStr bool
	// ghost: sum of the values visited so far (numeric maps), and the map's total and content
	// when the iteration started
	SeenSum  *Cell
	StartSum string
	StartDom string
	StartVal string
}

// ---------- state ----------

type defNode struct {
	line string
	prev *defNode
	n    int
}

type CallEvent struct {
	Callee string // name of function-typed parameter or "pkg.Func" / "(T).Method"
	Args   []Val
	Res    []Val
	Seq    int
	After  *State // state right after the call returned (recorded for calls replaced by a contract)
}

type State struct {
	cells    map[*Cell]Val
	heap     map[string]string
	defs     *defNode
	trace    []*CallEvent
	allocCtr string
	notes    []string
	dead     bool
	looped   bool // a loop without (checked) invariants has been entered on this path: the state is only an over-approximation
}

func (s *State) clone() *State {
	n := &State{cells: make(map[*Cell]Val, len(s.cells)), heap: make(map[string]string, len(s.heap)), defs: s.defs, allocCtr: s.allocCtr, looped: s.looped}
	for k, v := range s.cells {
		n.cells[k] = v
	}
	for k, v := range s.heap {
		n.heap[k] = v
	}
	n.trace = append([]*CallEvent(nil), s.trace...)
	n.notes = append([]string(nil), s.notes...)
	return n
}

func (s *State) add(line string) {
	n := 1
	if s.defs != nil {
		n = s.defs.n + 1
	}
	s.defs = &defNode{line: line, prev: s.defs, n: n}
}

func defsText(d *defNode) string {
	var lines []string
	for ; d != nil; d = d.prev {
		lines = append(lines, d.line)
	}
	var b strings.Builder
	for i := len(lines) - 1; i >= 0; i-- {
		b.WriteString(lines[i])
		b.WriteByte('\n')
	}
	return b.String()
}

// ---------- obligations ----------

type Obligation struct {
	Name   string // stable: pkg.func/kind[tag]#ord
	Kind   string
	Tag    string
	Fn     string
	Pos    string
	Desc   string
	defs   *defNode
	goal   string
	Cover  bool // expect sat (vacuity/cover check)
	Raw    string // complete SMT-LIB text (hand-written lemma): used instead of the generated query
	MaxSec int    // per-obligation solver time limit override
	Result string
	Solver string
	Secs   float64
	Model  string
	File   string
}

// ---------- frames ----------

type loopInfo struct {
	header *ssa.BasicBlock
	body   map[*ssa.BasicBlock]bool
	ord    int
	// static mod sets
	modCells  map[*ssa.Alloc]bool
	modArrays map[string]bool
	modRanges map[*ssa.Range]bool
	hasCalls  bool
}

type activeLoop struct {
	li         *loopInfo
	entry      *State // snapshot at loop entry (after havoc+assume)
	pre        *State // snapshot before havoc
	entryAlloc string
	mods       []string // refs that may be written (nil => no clause)
	hasMods    bool
	decr       []string // values of decreases exprs at loop head
}

type deferred struct {
	fn   Val
	args []Val
	call *ssa.CallCommon
}

type Frame struct {
	fn         *ssa.Function
	regs       map[ssa.Value]Val
	allocCell  map[*ssa.Alloc]*Cell
	defers     []deferred
	contract   *FuncContract
	top        bool
	entry      *State
	entryAlloc string
	mods       []string
	params     map[string]Val // entry values of parameters by name
	free       []Val
	parent     *Frame
	depth      int
	loops      map[*ssa.BasicBlock]*activeLoop
	callOrd    map[string]int
	namedRes   []*ssa.Alloc
}

func (f *Frame) clone() *Frame {
	n := *f
	n.regs = make(map[ssa.Value]Val, len(f.regs))
	for k, v := range f.regs {
		n.regs[k] = v
	}
	n.allocCell = make(map[*ssa.Alloc]*Cell, len(f.allocCell))
	for k, v := range f.allocCell {
		n.allocCell[k] = v
	}
	n.defers = append([]deferred(nil), f.defers...)
	n.loops = make(map[*ssa.BasicBlock]*activeLoop, len(f.loops))
	for k, v := range f.loops {
		n.loops[k] = v
	}
	n.callOrd = make(map[string]int, len(f.callOrd))
	for k, v := range f.callOrd {
		n.callOrd[k] = v
	}
	return &n
}

// ---------- misc ----------

func posStr(fset *token.FileSet, p token.Pos) string {
	if !p.IsValid() {
		return ""
	}
	ps := fset.Position(p)
	f := ps.Filename
	if i := strings.Index(f, "/repo/"); i >= 0 {
		f = f[i+6:]
	}
	return fmt.Sprintf("%s:%d", f, ps.Line)
}

type unsupported struct{ msg string }

func bail(f string, a ...interface{}) { panic(unsupported{fmt.Sprintf(f, a...)}) }
