#!/usr/bin/env python3
"""replay.py <replay file>  -- prints the replay file and, when it records a harness run against the real code,
runs that command again on /repo's current tree. Exit 1 if the real code still violates the oracle."""
import sys, os, re, shlex, subprocess
path = sys.argv[1]
text = open(path).read()
print(text)
m_dir = re.search(r'^replay-dir: (.*)$', text, re.M)
m_env = re.search(r'^replay-env: (.*)$', text, re.M)
m_cmd = re.search(r'^replay-cmd: (.*)$', text, re.M)
if not (m_dir and m_cmd):
    print("--- no harness command recorded in this file: nothing to re-run ---")
    sys.exit(0)
env = dict(os.environ, GOFLAGS="-mod=mod", GOPROXY="off", GOSUMDB="off", GOTOOLCHAIN="local")
if m_env:
    for kv in re.findall(r'(VERIF_REPLAY_[A-Z]+)=(\S*(?:\{.*\})?)', m_env.group(1)):
        env[kv[0]] = kv[1]
print("--- re-running:", m_cmd.group(1), "---")
r = subprocess.run(shlex.split(m_cmd.group(1)), cwd=m_dir.group(1), env=env, capture_output=True, text=True)
out = r.stdout + r.stderr
fails = [l[l.index("REPLAY-FAIL"):] for l in out.splitlines() if "REPLAY-FAIL" in l]
for f in fails[:5]:
    print(f)
if fails:
    print("--- the real code still violates the oracle ---")
    sys.exit(1)
print("\n".join(out.strip().splitlines()[-3:]))
print("--- no failing input on the current tree ---")
