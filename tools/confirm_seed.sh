#!/bin/sh
# usage: confirm_seed.sh <worktree> <outdir> <demo relative path> <pkg pattern...>
# confirms in the scratch worktree: builds, existing tests pass with the patch, demo fails with it and passes without.
export GOFLAGS=-mod=mod GOPROXY=off GOSUMDB=off GOTOOLCHAIN=local
wt=$1; out=$2; demo=$3; shift 3
cd "$wt" || exit 2
git checkout -q -- . ; rm -f "$demo"
git apply "$out/patch.diff" || exit 2
go build ./... || { echo "BUILD FAILS"; git checkout -q -- .; exit 1; }
if go test -vet=off -count=1 "$@" >/tmp/confirm_tests.log 2>&1; then echo "existing tests: pass with patch"; else echo "existing tests: FAIL with patch"; tail -5 /tmp/confirm_tests.log; fi
cp "$out/demo_test.go" "$demo"
pkg=./$(dirname "$demo")/
if go test -vet=off -count=1 -run 'Seed' "$pkg" >/tmp/confirm_demo.log 2>&1; then echo "demo with patch: PASSES (bad)"; else echo "demo with patch: fails (good)"; fi
git checkout -q -- .
if go test -vet=off -count=1 -run 'Seed' "$pkg" >/tmp/confirm_demo2.log 2>&1; then echo "demo without patch: passes (good)"; else echo "demo without patch: FAILS (bad)"; tail -5 /tmp/confirm_demo2.log; fi
rm -f "$demo"
