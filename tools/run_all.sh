#!/bin/sh
# usage: tools/run_all.sh [quick|thorough]  -- every claimed check once, sequentially, on the current tree;
# then every evidence file is checked against itself (proof level: discharged == obligations, no
# violations, schema-valid). Exit 1 if any check or any evidence file is not clean.
cd "$(dirname "$0")/.." || exit 2
tier=${1:-quick}
bad=0
for p in $(jq -r '.checks[].property_id' MANIFEST.json); do
  rm -f "evidence/$p.json"
  out=$(./check "$p" "$tier"); rc=$?
  echo "$out" | grep -E "^(VIOLATION|KNOWN-FINDING|property=)"
  if [ $rc -ne 0 ] || echo "$out" | grep -q "^VIOLATION"; then echo "  !! $p exit=$rc"; bad=1; fi
  if ! jq -e '.coverage.obligations > 0 and .coverage.discharged == .coverage.obligations and .violations == 0 and .level == "proof" and (.coverage.samples|length) > 0' "evidence/$p.json" >/dev/null; then
    echo "  !! evidence/$p.json is not a clean proof record"; bad=1
  fi
done
if command -v python3-vt >/dev/null 2>&1 && [ -f /root/.vp/EVIDENCE.schema.json ]; then
  python3-vt - <<'PY' || bad=1
import json, glob, sys, jsonschema
schema = json.load(open('/root/.vp/EVIDENCE.schema.json'))
claimed = {c['property_id'] for c in json.load(open('MANIFEST.json'))['checks']}
rc = 0
for p in sorted(claimed):
    try:
        jsonschema.validate(json.load(open(f'evidence/{p}.json')), schema)
    except Exception as e:
        print('  !! schema', p, str(e)[:200]); rc = 1
sys.exit(rc)
PY
fi
[ $bad -eq 0 ] && echo "all clean"
exit $bad
