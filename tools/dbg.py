#!/usr/bin/env python3
"""dbg.py query.smt2 [--drop-quant] [--add 'fact'...] [--val 'term'...]  : debugging aid for failed obligations"""
import sys, subprocess
args=sys.argv[1:]
f=args[0]; drop='--drop-quant' in args
adds=[args[i+1] for i,a in enumerate(args) if a=='--add']
vals=[args[i+1] for i,a in enumerate(args) if a=='--val']
lines=open(f).read().split('\n')
out=[]
for l in lines:
    if drop and l.startswith('(assert') and 'forall' in l: continue
    if l.startswith('(check-sat)'):
        for a in adds: out.append('(assert %s)'%a)
        out.append(l)
        if vals: out.append('(get-value (%s))'%' '.join(vals))
        continue
    out.append(l)
open('/tmp/dbg.smt2','w').write('\n'.join(out))
r=subprocess.run(['z3-new','-T:10','/tmp/dbg.smt2'],capture_output=True,text=True)
print(r.stdout[:3000])
