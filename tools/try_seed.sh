#!/bin/sh
# usage: try_seed.sh <property> <patch.diff>  -- applies the patch to /repo, runs the check, reverts.
prop=$1; patch=$2
cd /repo || exit 2
if [ -n "$(git status --short | grep -v "^??")" ]; then echo "REFUSING: /repo has uncommitted tracked changes"; exit 2; fi
git apply --check "$patch" || { echo "patch does not apply"; exit 2; }
git apply "$patch"
(cd /verif && ./check "$prop" quick) | grep -v "^KNOWN" | tail -6
git -C /repo checkout -- . 
git -C /repo status --short | grep -v verif_contracts | head
