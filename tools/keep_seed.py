#!/usr/bin/env python3
"""keep_seed.py <prop> <n> <demo relative path> <caught-by obligation / 'MISSED'> <pkg patterns...>
Confirms a sub-agent's seeded change in its scratch worktree and stores it under /verif/seeded/."""
import sys, subprocess, json, os, shutil
prop, n, demo, caught = sys.argv[1:5]; pkgs = sys.argv[5:]
wt=f"/tmp/seed/{prop}"; out=f"{wt}/_out/{n}"
r=subprocess.run(["/verif/tools/confirm_seed.sh", wt, out, demo]+pkgs, capture_output=True, text=True)
print(r.stdout)
ok = "pass with patch" in r.stdout and "fails (good)" in r.stdout and "passes (good)" in r.stdout
if not ok:
    print("NOT CONFIRMED"); sys.exit(1)
dst=f"/verif/seeded/{prop}-{n}"
os.makedirs(dst, exist_ok=True)
shutil.copy(f"{out}/patch.diff", dst)
shutil.copy(f"{out}/demo_test.go", dst)
meta=json.load(open(f"{out}/meta.json"))
meta["breaks_property"]=prop
meta["demo_path"]=demo
meta["confirmed"]={"by":"confirm_seed.sh in scratch worktree "+wt, "existing_tests":"pass with patch: go test -vet=off -count=1 "+" ".join(pkgs),
  "demo":"fails with patch, passes without", "output":r.stdout.strip().split("\n")}
meta["check_result"]=caught
json.dump(meta, open(f"{dst}/meta.json","w"), indent=1)
print("kept", dst)
