#!/bin/sh
# usage: tools/selftest.sh [seed dirs...]   -- must-fail corpus: every kept seed (a change to /repo that
# breaks a property while compiling and passing the existing tests) has to be reported as a VIOLATION.
# Run it after every engine change; it rewrites evidence files, so re-run the checks on the clean tree
# afterwards.
cd "$(dirname "$0")/.." || exit 2
[ $# -eq 0 ] && set -- seeded/*/
fail=0
for d in "$@"; do
  d=${d%/}
  prop=$(basename "$d" | cut -d- -f1)
  t0=$(date +%s)
  out=$(tools/try_seed.sh "$prop" "$(pwd)/$d/patch.diff" 2>&1)
  t1=$(date +%s)
  if echo "$out" | grep -q "^VIOLATION property=$prop "; then
    echo "detected  $(basename "$d")  $((t1-t0))s  $(echo "$out" | grep -c '^VIOLATION') violation line(s)"
  else
    echo "MISSED    $(basename "$d")  $((t1-t0))s"; echo "$out" | tail -3; fail=1
  fi
done
exit $fail
