; C05 floating-point obligation (bit-precise, IEEE-754 binary64):
; for every request of k hundredths of a core (1 <= k < BOUND), written as the decimal k/100 and read as the
; nearest float64, the expression int(math.Round(cpuRequest * float64(100))) of schedule.getCPUPlans yields k.
; Negated below: a counterexample k would make this satisfiable.
(set-logic QF_FPBV)
(declare-const k (_ BitVec 32))
(assert (bvsge k #x00000001))
(assert (bvslt k BOUND))
(define-fun hundred () (_ FloatingPoint 11 53) ((_ to_fp 11 53) RNE 100.0))
(define-fun kf () (_ FloatingPoint 11 53) ((_ to_fp 11 53) RNE k))
(define-fun req () (_ FloatingPoint 11 53) (fp.div RNE kf hundred))
(define-fun prod () (_ FloatingPoint 11 53) (fp.mul RNE req hundred))
(define-fun rounded () (_ FloatingPoint 11 53) (fp.roundToIntegral RNA prod))
(assert (not (= ((_ fp.to_sbv 32) RTZ rounded) k)))
(check-sat)
